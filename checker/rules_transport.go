package main

import (
	"fmt"
	"go/token"
	"go/types"
	"strings"

	"golang.org/x/tools/go/ssa"
)

// ruleTransport: the relay-facing adapters (the two ClientConnTransport implementations and the
// server's two stream callbacks) carry exactly one GBN packet per relay message and report what
// happened to it:
//
//	T-1  every CipherBox they send carries the payload parameter of the function as its Msg;
//	T-2  what their receive function hands to gbn on a successful return is the Msg field of the
//	     CipherBox received/decoded in that call;
//	T-3  the error of every operation on the socket/stream (Read, Write, Send, Recv, Dial,
//	     SendStream, RecvStream) is tested and its failing leg returns a non-nil error - or, in
//	     the server's retry loops, re-creates the stream - so a broken stream is never mistaken
//	     for a delivered packet;
//	T-4  Refresh() of a transport hands out an object whose connected-ness fields (the ones
//	     ReceiveConnected/SendConnected test) are unset: the streams of the closed connection
//	     are never reused.
func ruleTransport(c *Checker, frame, retry, fresh string) {
	w := c.w
	tr := w.Named("mailbox.ClientConnTransport")
	fMsg := (*types.Var)(nil)
	var boxNamed *types.Named
	for _, p := range w.Pkgs[targetMbox].Types.Imports() {
		if strings.HasSuffix(p.Path(), "/hashmailrpc") {
			if tn, ok := p.Scope().Lookup("CipherBox").(*types.TypeName); ok {
				boxNamed, _ = tn.Type().(*types.Named)
			}
		}
	}
	if tr == nil || boxNamed == nil {
		c.anchorFail("mailbox.ClientConnTransport / hashmailrpc.CipherBox")
		return
	}
	if st, ok := boxNamed.Underlying().(*types.Struct); ok {
		for i := 0; i < st.NumFields(); i++ {
			if st.Field(i).Name() == "Msg" {
				fMsg = st.Field(i)
			}
		}
	}
	if fMsg == nil {
		c.anchorFail("hashmailrpc.CipherBox.Msg")
		return
	}
	iface, _ := tr.Underlying().(*types.Interface)
	type fnRole struct {
		fn   *ssa.Function
		send bool
	}
	var fns []fnRole
	var impls []*types.Named
	for _, fn := range w.Funcs {
		if w.pkgShort(fn) != targetMbox || fn.Signature.Recv() == nil || strings.HasSuffix(w.Fset.Position(fn.Pos()).Filename, "_test.go") {
			continue
		}
		rt := fn.Signature.Recv().Type()
		if iface != nil && types.Implements(rt, iface) {
			switch fn.Name() {
			case "Send":
				fns = append(fns, fnRole{fn, true})
			case "Recv":
				fns = append(fns, fnRole{fn, false})
			case "Refresh":
				if nn := namedOf(deref(rt)); nn != nil {
					impls = append(impls, nn)
				}
			}
		}
	}
	for _, n := range []string{"(*mailbox.ServerConn).sendToStream", "(*mailbox.ServerConn).recvFromStream"} {
		if fn := w.Func(n); fn != nil {
			fns = append(fns, fnRole{fn, strings.HasSuffix(n, "sendToStream")})
		} else {
			c.anchorFail(n)
		}
	}
	nT := 0
	for _, fr := range fns {
		fn := fr.fn
		name := fnName(fn)
		if fr.send {
			// T-1: the []byte parameter named by position: last []byte parameter
			var payload ssa.Value
			for _, p := range fn.Params {
				if sl, ok := p.Type().Underlying().(*types.Slice); ok && types.Identical(sl.Elem(), types.Typ[types.Byte]) {
					payload = p
				}
			}
			okk, k := payload != nil, 0
			allInstrs(fn, func(in ssa.Instruction) {
				al, ok := in.(*ssa.Alloc)
				if !ok || namedOf(deref(al.Type())) != boxNamed {
					return
				}
				if _, isPtrToStruct := deref(al.Type()).Underlying().(*types.Struct); !isPtrToStruct {
					return
				}
				k++
				set := false
				for _, r := range *al.Referrers() {
					fa, ok := r.(*ssa.FieldAddr)
					if !ok || structFieldOf(fa) != fMsg {
						continue
					}
					for _, rr := range *fa.Referrers() {
						if st, ok := rr.(*ssa.Store); ok && st.Addr == ssa.Value(fa) && st.Val == payload {
							set = true
						}
					}
				}
				if !set {
					okk = false
				}
			})
			nT++
			c.decide(okk && k >= 1, frame, name+"|the relay message carries the packet", fn.Pos(), "CipherBox{Msg: payload}",
				"a CipherBox sent by "+name+" does not carry the payload it was given as Msg: the packet gbn handed over never reaches the peer")
		} else {
			// T-2
			bad := ""
			nOK := 0
			allInstrs(fn, func(in ssa.Instruction) {
				ret, ok := in.(*ssa.Return)
				if !ok || ret.Block().Comment == "recover" {
					return
				}
				succ := false
				for _, v := range expandValues(ret.Results[len(ret.Results)-1]) {
					if isNilConst(v) {
						succ = true
					}
				}
				if !succ {
					return
				}
				for _, v := range expandValues(ret.Results[0]) {
					if isNilConst(v) {
						continue // the quit leg of the server callback
					}
					if isLoadOfField(v, fMsg) {
						nOK++
						continue
					}
					bad = w.canonFB(v) + " at " + w.pos(instrPos(ret))
				}
			})
			nT++
			c.decide(bad == "" && nOK >= 1, frame, name+"|hands gbn the Msg of the received relay message", fn.Pos(), "returns CipherBox.Msg",
				name+" hands gbn "+bad+" instead of the Msg field of the relay message it received")
		}
		// T-3
		allInstrs(fn, func(in ssa.Instruction) {
			call, ok := in.(*ssa.Call)
			if !ok {
				return
			}
			m := ""
			if call.Common().IsInvoke() {
				m = call.Common().Method.Name()
			} else if sc := call.Common().StaticCallee(); sc != nil && sc.Signature.Recv() != nil {
				m = sc.Name()
			}
			switch m {
			case "Read", "Write", "Send", "Recv":
			default:
				return
			}
			// only operations on a socket/stream: receiver type from websocket or hashmailrpc
			var rt types.Type
			if call.Common().IsInvoke() {
				rt = call.Common().Value.Type()
			} else if len(call.Common().Args) > 0 {
				rt = call.Common().Args[0].Type()
			}
			nn := namedOf(deref(rt))
			if nn == nil || nn.Obj().Pkg() == nil || !(strings.Contains(nn.Obj().Pkg().Path(), "websocket") || strings.HasSuffix(nn.Obj().Pkg().Path(), "/hashmailrpc")) {
				return
			}
			tup, isTup := call.Type().(*types.Tuple)
			idx := 0
			if isTup {
				idx = tup.Len() - 1
			}
			okk, why := errCheckedAndReturned(call, idx)
			if !okk && (fn.Name() == "sendToStream" || fn.Name() == "recvFromStream") {
				// the server's retry loops: the failing leg re-creates the stream instead of returning
				okk, why = errTestedAtAll(call, idx), "the error is not tested"
			}
			nT++
			c.decide(okk, retry, fmt.Sprintf("%s|error of %s.%s reported", name, nn.Obj().Name(), m), instrPos(call), "tested; the failing leg returns the error (server: re-creates the stream)",
				"the error of "+nn.Obj().Name()+"."+m+" in "+name+" is not reported ("+why+"): a broken socket/stream looks like a delivered packet and is never re-created")
		})
	}
	c.decide(nT >= 12, frame, "transport adapters", token.NoPos, fmt.Sprintf("%d obligations over %d relay-facing functions", nT, len(fns)), fmt.Sprintf("only %d transport obligations found", nT))
	// T-4
	for _, nn := range impls {
		var tested []*types.Var
		var refresh *ssa.Function
		for _, fn := range w.Funcs {
			if fn.Signature.Recv() == nil || namedOf(deref(fn.Signature.Recv().Type())) != nn {
				continue
			}
			switch fn.Name() {
			case "ReceiveConnected", "SendConnected":
				allInstrs(fn, func(in ssa.Instruction) {
					if fa, ok := in.(*ssa.FieldAddr); ok && fa.X == ssa.Value(fn.Params[0]) {
						tested = append(tested, structFieldOf(fa))
					}
				})
			case "Refresh":
				refresh = fn
			}
		}
		if refresh == nil || len(tested) == 0 {
			c.fail(fresh, nn.Obj().Name()+".Refresh|shape", token.NoPos, "Refresh / *Connected not found")
			continue
		}
		// the object Refresh returns: allocated in Refresh itself, or by a constructor of the package
		// that Refresh calls (every return of which is again such an object)
		involved := []*ssa.Function{refresh}
		var freshObj func(v ssa.Value, depth int) bool
		freshObj = func(v ssa.Value, depth int) bool {
			if depth > 4 {
				return false
			}
			switch x := v.(type) {
			case *ssa.MakeInterface:
				return freshObj(x.X, depth)
			case *ssa.ChangeInterface:
				return freshObj(x.X, depth)
			case *ssa.Alloc:
				return x.Heap
			case *ssa.Call:
				callee := x.Common().StaticCallee()
				if callee == nil || !w.inTargets(callee) || len(callee.Blocks) == 0 || callee.Signature.Results().Len() != 1 {
					return false
				}
				involved = append(involved, callee)
				ok, n := true, 0
				allInstrs(callee, func(in ssa.Instruction) {
					if ret, isRet := in.(*ssa.Return); isRet && ret.Block().Comment != "recover" {
						for _, r := range expandValues(ret.Results[0]) {
							n++
							ok = ok && freshObj(r, depth+1)
						}
					}
				})
				return ok && n > 0
			}
			return false
		}
		newObj, nRet := true, 0
		allInstrs(refresh, func(in ssa.Instruction) {
			if ret, ok := in.(*ssa.Return); ok && ret.Block().Comment != "recover" {
				for _, v := range expandValues(ret.Results[0]) {
					nRet++
					newObj = newObj && freshObj(v, 0)
				}
			}
		})
		newObj = newObj && nRet > 0
		bad := ""
		for _, fn := range involved {
			allInstrs(fn, func(in ssa.Instruction) {
				st, ok := in.(*ssa.Store)
				if !ok {
					return
				}
				fa, ok := st.Addr.(*ssa.FieldAddr)
				if !ok {
					return
				}
				for _, f := range tested {
					if structFieldOf(fa) == f && !isNilConst(st.Val) {
						bad = f.Name()
					}
				}
			})
		}
		c.decide(bad == "" && newObj, fresh, nn.Obj().Name()+".Refresh|a new transport without the old streams", refresh.Pos(), "new object; the fields *Connected() test stay unset",
			nn.Obj().Name()+".Refresh carries "+bad+" of the closed connection over (or returns the old object): the refreshed connection believes it is connected and never re-opens its streams")
	}
}

// errTestedAtAll: result idx of call is compared with nil somewhere.
func errTestedAtAll(call *ssa.Call, idx int) bool {
	var errv ssa.Value = call
	if _, ok := call.Type().(*types.Tuple); ok {
		errv = nil
		for _, r := range *call.Referrers() {
			if ex, ok := r.(*ssa.Extract); ok && ex.Index == idx {
				errv = ex
			}
		}
	}
	if errv == nil || errv.Referrers() == nil {
		return false
	}
	for _, r := range *errv.Referrers() {
		if bo, ok := r.(*ssa.BinOp); ok && (bo.Op == token.EQL || bo.Op == token.NEQ) {
			return true
		}
	}
	return false
}
