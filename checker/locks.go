package main

import (
	"go/types"
	"sort"
	"strings"

	"golang.org/x/tools/go/ssa"
)

// A8: must-held locksets. A lock class is the struct field holding the mutex
// (one mutex field of a struct type guards the other fields of the same
// instance - the ownership assumption stated in DESIGN.md).

type lockMode int

const (
	lockShared lockMode = 1
	lockExcl   lockMode = 2
)

// LockSet maps lock class -> strongest mode certainly held.
type LockSet map[*types.Var]lockMode

func (ls LockSet) clone() LockSet {
	o := LockSet{}
	for k, v := range ls {
		o[k] = v
	}
	return o
}

func (ls LockSet) intersect(o LockSet) LockSet {
	r := LockSet{}
	for k, v := range ls {
		if v2, ok := o[k]; ok {
			if v2 < v {
				v = v2
			}
			r[k] = v
		}
	}
	return r
}

func (ls LockSet) union(o LockSet) LockSet {
	r := ls.clone()
	for k, v := range o {
		if r[k] < v {
			r[k] = v
		}
	}
	return r
}

func (ls LockSet) equal(o LockSet) bool {
	if len(ls) != len(o) {
		return false
	}
	for k, v := range ls {
		if o[k] != v {
			return false
		}
	}
	return true
}

func (w *World) lockSetString(ls LockSet) string {
	var ss []string
	for k, v := range ls {
		m := "R"
		if v == lockExcl {
			m = "W"
		}
		ss = append(ss, w.fieldKey(k)+":"+m)
	}
	sort.Strings(ss)
	return "{" + strings.Join(ss, ",") + "}"
}

// lockOp classifies a call as a mutex operation on a struct field.
func lockOp(cc *ssa.CallCommon) (field *types.Var, acquire bool, mode lockMode, ok bool) {
	sc := cc.StaticCallee()
	if sc == nil || sc.Signature.Recv() == nil || len(cc.Args) == 0 {
		return nil, false, 0, false
	}
	isMu := isMethod(sc, "sync", "Mutex", sc.Name()) || isMethod(sc, "sync", "RWMutex", sc.Name())
	if !isMu {
		return nil, false, 0, false
	}
	fa, isFA := cc.Args[0].(*ssa.FieldAddr)
	if !isFA {
		return nil, false, 0, false
	}
	f := structFieldOf(fa)
	switch sc.Name() {
	case "Lock":
		return f, true, lockExcl, true
	case "RLock":
		return f, true, lockShared, true
	case "Unlock":
		return f, false, lockExcl, true
	case "RUnlock":
		return f, false, lockShared, true
	}
	return nil, false, 0, false
}

// LockInfo holds the lockset at every instruction of the target functions.
type LockInfo struct {
	w     *World
	entry map[*ssa.Function]LockSet
	at    map[ssa.Instruction]LockSet
	top   map[*ssa.Function]bool // entry not yet constrained
	// acquisition edges: held -> acquired (with a witness position)
	edges map[[2]*types.Var]ssa.Instruction
	// re-acquisition of a lock already held
	reacq []ssa.Instruction
	// may-held analysis (union over paths and call sites), used for lock order and blocking-under-lock
	mayEntry map[*ssa.Function]LockSet
	mayAt    map[ssa.Instruction]LockSet
}

// computeLocks runs the interprocedural must-lockset analysis over the given functions.
// roots have an empty entry lockset; other functions inherit the intersection over call sites.
func (w *World) computeLocks(funcs []*ssa.Function, roots map[*ssa.Function]bool) *LockInfo {
	li := &LockInfo{w: w, entry: map[*ssa.Function]LockSet{}, at: map[ssa.Instruction]LockSet{}, top: map[*ssa.Function]bool{},
		edges: map[[2]*types.Var]ssa.Instruction{}}
	inSet := map[*ssa.Function]bool{}
	for _, f := range funcs {
		inSet[f] = true
		if roots[f] {
			li.entry[f] = LockSet{}
		} else {
			li.top[f] = true
		}
	}
	// functions without any caller inside the set are treated as roots too
	for _, f := range funcs {
		if !li.top[f] {
			continue
		}
		has := false
		for _, s := range w.CG().callers[f] {
			if inSet[s.Caller] {
				if _, isGo := s.Instr.(*ssa.Go); !isGo {
					has = true
				}
			}
		}
		if !has {
			li.entry[f] = LockSet{}
			delete(li.top, f)
		}
	}
	for iter := 0; iter < 30; iter++ {
		changed := false
		for _, f := range funcs {
			if li.top[f] {
				continue
			}
			li.flow(f, func(call ssa.CallInstruction, ls LockSet) {
				if _, isGo := call.(*ssa.Go); isGo {
					return
				}
				_, isDefer := call.(*ssa.Defer)
				for _, callee := range w.Callees(call) {
					if !inSet[callee] || roots[callee] {
						continue
					}
					in := ls
					if isDefer {
						// deferred calls run at function exit: locks released by earlier defers are unknown; be conservative
						in = LockSet{}
					}
					if li.top[callee] {
						delete(li.top, callee)
						li.entry[callee] = in.clone()
						changed = true
						continue
					}
					n := li.entry[callee].intersect(in)
					if !n.equal(li.entry[callee]) {
						li.entry[callee] = n
						changed = true
					}
				}
			}, false)
		}
		if !changed {
			break
		}
	}
	// final pass records per-instruction must-locksets
	for _, f := range funcs {
		if li.top[f] {
			li.entry[f] = LockSet{}
		}
		li.flow(f, nil, true)
	}
	// may-held analysis
	li.mayEntry = map[*ssa.Function]LockSet{}
	li.mayAt = map[ssa.Instruction]LockSet{}
	for _, f := range funcs {
		li.mayEntry[f] = LockSet{}
	}
	for iter := 0; iter < 30; iter++ {
		changed := false
		for _, f := range funcs {
			li.flowMay(f, func(call ssa.CallInstruction, ls LockSet) {
				if _, isGo := call.(*ssa.Go); isGo {
					return
				}
				for _, callee := range w.Callees(call) {
					if !inSet[callee] {
						continue
					}
					n := li.mayEntry[callee].union(ls)
					if !n.equal(li.mayEntry[callee]) {
						li.mayEntry[callee] = n
						changed = true
					}
				}
			}, false)
		}
		if !changed {
			break
		}
	}
	for _, f := range funcs {
		li.flowMay(f, nil, true)
	}
	return li
}

// flowMay is the may-held (union) variant of flow; it records acquisition edges and re-acquisitions.
func (li *LockInfo) flowMay(f *ssa.Function, onCall func(ssa.CallInstruction, LockSet), record bool) {
	if len(f.Blocks) == 0 {
		return
	}
	in := map[*ssa.BasicBlock]LockSet{f.Blocks[0]: li.mayEntry[f].clone()}
	work := []*ssa.BasicBlock{f.Blocks[0]}
	visited := map[*ssa.BasicBlock]bool{}
	for len(work) > 0 {
		b := work[0]
		work = work[1:]
		visited[b] = true
		cur := in[b].clone()
		for _, ins := range b.Instrs {
			if record {
				li.mayAt[ins] = cur.clone()
			}
			call, isCall := ins.(ssa.CallInstruction)
			if !isCall {
				continue
			}
			if fld, acq, mode, ok := lockOp(call.Common()); ok {
				if _, isDefer := ins.(*ssa.Defer); isDefer {
					continue
				}
				if acq {
					if record {
						if _, held := cur[fld]; held {
							li.reacq = appendInstr(li.reacq, ins)
						}
						for h := range cur {
							if h != fld {
								k := [2]*types.Var{h, fld}
								if _, ok := li.edges[k]; !ok {
									li.edges[k] = ins
								}
							}
						}
					}
					if cur[fld] < mode {
						cur[fld] = mode
					}
				} else {
					delete(cur, fld)
				}
				continue
			}
			if onCall != nil {
				onCall(call, cur)
			}
		}
		for _, s := range b.Succs {
			old, ok := in[s]
			if !ok {
				in[s] = cur.clone()
				work = append(work, s)
				continue
			}
			n := old.union(cur)
			if !n.equal(old) || !visited[s] {
				in[s] = n
				work = append(work, s)
			}
		}
	}
}

func appendInstr(s []ssa.Instruction, x ssa.Instruction) []ssa.Instruction {
	for _, y := range s {
		if y == x {
			return s
		}
	}
	return append(s, x)
}

// MayAt returns the locks possibly held just before ins executes.
func (li *LockInfo) MayAt(ins ssa.Instruction) LockSet {
	if ls, ok := li.mayAt[ins]; ok {
		return ls
	}
	return LockSet{}
}

// flow runs the intra-procedural dataflow of f from its entry lockset.
func (li *LockInfo) flow(f *ssa.Function, onCall func(ssa.CallInstruction, LockSet), record bool) {
	if len(f.Blocks) == 0 {
		return
	}
	in := map[*ssa.BasicBlock]LockSet{f.Blocks[0]: li.entry[f].clone()}
	done := map[*ssa.BasicBlock]bool{}
	work := []*ssa.BasicBlock{f.Blocks[0]}
	out := map[*ssa.BasicBlock]LockSet{}
	for len(work) > 0 {
		b := work[0]
		work = work[1:]
		cur := in[b].clone()
		for _, ins := range b.Instrs {
			if record {
				li.at[ins] = cur.clone()
			}
			call, isCall := ins.(ssa.CallInstruction)
			if !isCall {
				continue
			}
			if fld, acq, mode, ok := lockOp(call.Common()); ok {
				if _, isDefer := ins.(*ssa.Defer); isDefer {
					continue // deferred unlock: held until exit
				}
				if acq {
					if cur[fld] < mode {
						cur[fld] = mode
					}
				} else {
					delete(cur, fld)
				}
				continue
			}
			if onCall != nil {
				onCall(call, cur)
			}
		}
		if prev, ok := out[b]; ok && prev.equal(cur) && done[b] {
			continue
		}
		out[b] = cur
		done[b] = true
		for _, s := range b.Succs {
			if old, ok := in[s]; ok {
				n := old.intersect(cur)
				if !n.equal(old) {
					in[s] = n
					work = append(work, s)
				}
			} else {
				in[s] = cur.clone()
				work = append(work, s)
			}
		}
	}
}

// At returns the lockset held just before instruction ins executes.
func (li *LockInfo) At(ins ssa.Instruction) LockSet {
	if ls, ok := li.at[ins]; ok {
		return ls
	}
	return LockSet{}
}
