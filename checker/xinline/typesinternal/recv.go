// Copyright 2024 The Go Authors. All rights reserved.
// Use of this source code is governed by a BSD-style
// license that can be found in the LICENSE file.

package typesinternal

import (
	"go/types"
)

// ReceiverNamed returns the named type (if any) associated with the
// type of recv, which may be of the form N or *N, or aliases thereof.
// It also reports whether a Pointer was present.
//
// The named result may be nil in ill-typed code.
func ReceiverNamed(recv *types.Var) (isPtr bool, named *types.Named) {
	t := recv.Type()
	if ptr, ok := types.Unalias(t).(*types.Pointer); ok {
		isPtr = true
		t = ptr.Elem()
	}
	named, _ = types.Unalias(t).(*types.Named)
	return
}

// Unpointer returns T given *T or an alias thereof.
// For all other types it is the identity function.
// It does not look at underlying types.
// The result may be an alias.
//
// Use this function to strip off the optional pointer on a receiver
// in a field or method selection, without losing the named type
// (which is needed to compute the method set).
//
// See also [typeparams.MustDeref], which removes one level of
// indirection from the type, regardless of named types (analogous to
// a LOAD instruction).
func Unpointer(t types.Type) types.Type {
	if ptr, ok := types.Unalias(t).(*types.Pointer); ok {
		return ptr.Elem()
	}
	return t
}
