// Copyright 2024 The Go Authors. All rights reserved.
// Use of this source code is governed by a BSD-style
// license that can be found in the LICENSE file.

package typesinternal

import (
	"fmt"
	"go/ast"
	"go/token"
	"go/types"
	"strings"
)

// ZeroString returns the string representation of the zero value for any type t.
// The boolean result indicates whether the type is or contains an invalid type
// or a non-basic (constraint) interface type.
//
// Even for invalid input types, ZeroString may return a partially correct
// string representation. The caller should use the returned isValid boolean
// to determine the validity of the expression.
//
// When assigning to a wider type (such as 'any'), it's the caller's
// responsibility to handle any necessary type conversions.
//
// This string can be used on the right-hand side of an assignment where the
// left-hand side has that explicit type.
// References to named types are qualified by an appropriate (optional)
// qualifier function.
// Exception: This does not apply to tuples. Their string representation is
// informational only and cannot be used in an assignment.
//
// See [ZeroExpr] for a variant that returns an [ast.Expr].
func ZeroString(t types.Type, qual types.Qualifier) (_ string, isValid bool) {
	switch t := t.(type) {
	case *types.Basic:
		switch {
		case t.Info()&types.IsBoolean != 0:
			return "false", true
		case t.Info()&types.IsNumeric != 0:
			return "0", true
		case t.Info()&types.IsString != 0:
			return `""`, true
		case t.Kind() == types.UnsafePointer:
			fallthrough
		case t.Kind() == types.UntypedNil:
			return "nil", true
		case t.Kind() == types.Invalid:
			return "invalid", false
		default:
			panic(fmt.Sprintf("ZeroString for unexpected type %v", t))
		}

	case *types.Pointer, *types.Slice, *types.Chan, *types.Map, *types.Signature:
		return "nil", true

	case *types.Interface:
		if !t.IsMethodSet() {
			return "invalid", false
		}
		return "nil", true

	case *types.Named:
		switch under := t.Underlying().(type) {
		case *types.Struct, *types.Array:
			return types.TypeString(t, qual) + "{}", true
		default:
			return ZeroString(under, qual)
		}

	case *types.Alias:
		switch t.Underlying().(type) {
		case *types.Struct, *types.Array:
			return types.TypeString(t, qual) + "{}", true
		default:
			// A type parameter can have alias but alias type's underlying type
			// can never be a type parameter.
			// Use types.Unalias to preserve the info of type parameter instead
			// of call Underlying() going right through and get the underlying
			// type of the type parameter which is always an interface.
			return ZeroString(types.Unalias(t), qual)
		}

	case *types.Array, *types.Struct:
		return types.TypeString(t, qual) + "{}", true

	case *types.TypeParam:
		// Assumes func new is not shadowed.
		return "*new(" + types.TypeString(t, qual) + ")", true

	case *types.Tuple:
		// Tuples are not normal values.
		// We are currently format as "(t[0], ..., t[n])". Could be something else.
		isValid := true
		components := make([]string, t.Len())
		for i := 0; i < t.Len(); i++ {
			comp, ok := ZeroString(t.At(i).Type(), qual)

			components[i] = comp
			isValid = isValid && ok
		}
		return "(" + strings.Join(components, ", ") + ")", isValid

	case *types.Union:
		// Variables of these types cannot be created, so it makes
		// no sense to ask for their zero value.
		panic(fmt.Sprintf("invalid type for a variable: %v", t))

	default:
		panic(t) // unreachable.
	}
}

// ZeroExpr returns the ast.Expr representation of the zero value for any type t.
// The boolean result indicates whether the type is or contains an invalid type
// or a non-basic (constraint) interface type.
//
// Even for invalid input types, ZeroExpr may return a partially correct ast.Expr
// representation. The caller should use the returned isValid boolean to determine
// the validity of the expression.
//
// This function is designed for types suitable for variables and should not be
// used with Tuple or Union types.References to named types are qualified by an
// appropriate (optional) qualifier function.
//
// See [ZeroString] for a variant that returns a string.
func ZeroExpr(t types.Type, qual types.Qualifier) (_ ast.Expr, isValid bool) {
	switch t := t.(type) {
	case *types.Basic:
		switch {
		case t.Info()&types.IsBoolean != 0:
			return &ast.Ident{Name: "false"}, true
		case t.Info()&types.IsNumeric != 0:
			return &ast.BasicLit{Kind: token.INT, Value: "0"}, true
		case t.Info()&types.IsString != 0:
			return &ast.BasicLit{Kind: token.STRING, Value: `""`}, true
		case t.Kind() == types.UnsafePointer:
			fallthrough
		case t.Kind() == types.UntypedNil:
			return ast.NewIdent("nil"), true
		case t.Kind() == types.Invalid:
			return &ast.BasicLit{Kind: token.STRING, Value: `"invalid"`}, false
		default:
			panic(fmt.Sprintf("ZeroExpr for unexpected type %v", t))
		}

	case *types.Pointer, *types.Slice, *types.Chan, *types.Map, *types.Signature:
		return ast.NewIdent("nil"), true

	case *types.Interface:
		if !t.IsMethodSet() {
			return &ast.BasicLit{Kind: token.STRING, Value: `"invalid"`}, false
		}
		return ast.NewIdent("nil"), true

	case *types.Named:
		switch under := t.Underlying().(type) {
		case *types.Struct, *types.Array:
			return &ast.CompositeLit{
				Type: TypeExpr(t, qual),
			}, true
		default:
			return ZeroExpr(under, qual)
		}

	case *types.Alias:
		switch t.Underlying().(type) {
		case *types.Struct, *types.Array:
			return &ast.CompositeLit{
				Type: TypeExpr(t, qual),
			}, true
		default:
			return ZeroExpr(types.Unalias(t), qual)
		}

	case *types.Array, *types.Struct:
		return &ast.CompositeLit{
			Type: TypeExpr(t, qual),
		}, true

	case *types.TypeParam:
		return &ast.StarExpr{ // *new(T)
			X: &ast.CallExpr{
				// Assumes func new is not shadowed.
				Fun: ast.NewIdent("new"),
				Args: []ast.Expr{
					ast.NewIdent(t.Obj().Name()),
				},
			},
		}, true

	case *types.Tuple:
		// Unlike ZeroString, there is no ast.Expr can express tuple by
		// "(t[0], ..., t[n])".
		panic(fmt.Sprintf("invalid type for a variable: %v", t))

	case *types.Union:
		// Variables of these types cannot be created, so it makes
		// no sense to ask for their zero value.
		panic(fmt.Sprintf("invalid type for a variable: %v", t))

	default:
		panic(t) // unreachable.
	}
}

// IsZeroExpr uses simple syntactic heuristics to report whether expr
// is a obvious zero value, such as 0, "", nil, or false.
// It cannot do better without type information.
func IsZeroExpr(expr ast.Expr) bool {
	switch e := expr.(type) {
	case *ast.BasicLit:
		return e.Value == "0" || e.Value == `""`
	case *ast.Ident:
		return e.Name == "nil" || e.Name == "false"
	default:
		return false
	}
}

// TypeExpr returns syntax for the specified type. References to named types
// are qualified by an appropriate (optional) qualifier function.
// It may panic for types such as Tuple or Union.
func TypeExpr(t types.Type, qual types.Qualifier) ast.Expr {
	switch t := t.(type) {
	case *types.Basic:
		switch t.Kind() {
		case types.UnsafePointer:
			return &ast.SelectorExpr{X: ast.NewIdent(qual(types.NewPackage("unsafe", "unsafe"))), Sel: ast.NewIdent("Pointer")}
		default:
			return ast.NewIdent(t.Name())
		}

	case *types.Pointer:
		return &ast.UnaryExpr{
			Op: token.MUL,
			X:  TypeExpr(t.Elem(), qual),
		}

	case *types.Array:
		return &ast.ArrayType{
			Len: &ast.BasicLit{
				Kind:  token.INT,
				Value: fmt.Sprintf("%d", t.Len()),
			},
			Elt: TypeExpr(t.Elem(), qual),
		}

	case *types.Slice:
		return &ast.ArrayType{
			Elt: TypeExpr(t.Elem(), qual),
		}

	case *types.Map:
		return &ast.MapType{
			Key:   TypeExpr(t.Key(), qual),
			Value: TypeExpr(t.Elem(), qual),
		}

	case *types.Chan:
		dir := ast.ChanDir(t.Dir())
		if t.Dir() == types.SendRecv {
			dir = ast.SEND | ast.RECV
		}
		return &ast.ChanType{
			Dir:   dir,
			Value: TypeExpr(t.Elem(), qual),
		}

	case *types.Signature:
		var params []*ast.Field
		for i := 0; i < t.Params().Len(); i++ {
			params = append(params, &ast.Field{
				Type: TypeExpr(t.Params().At(i).Type(), qual),
				Names: []*ast.Ident{
					{
						Name: t.Params().At(i).Name(),
					},
				},
			})
		}
		if t.Variadic() {
			last := params[len(params)-1]
			last.Type = &ast.Ellipsis{Elt: last.Type.(*ast.ArrayType).Elt}
		}
		var returns []*ast.Field
		for i := 0; i < t.Results().Len(); i++ {
			returns = append(returns, &ast.Field{
				Type: TypeExpr(t.Results().At(i).Type(), qual),
			})
		}
		return &ast.FuncType{
			Params: &ast.FieldList{
				List: params,
			},
			Results: &ast.FieldList{
				List: returns,
			},
		}

	case *types.TypeParam:
		pkgName := qual(t.Obj().Pkg())
		if pkgName == "" || t.Obj().Pkg() == nil {
			return ast.NewIdent(t.Obj().Name())
		}
		return &ast.SelectorExpr{
			X:   ast.NewIdent(pkgName),
			Sel: ast.NewIdent(t.Obj().Name()),
		}

	// types.TypeParam also implements interface NamedOrAlias. To differentiate,
	// case TypeParam need to be present before case NamedOrAlias.
	// TODO(hxjiang): remove this comment once TypeArgs() is added to interface
	// NamedOrAlias.
	case NamedOrAlias:
		var expr ast.Expr = ast.NewIdent(t.Obj().Name())
		if pkgName := qual(t.Obj().Pkg()); pkgName != "." && pkgName != "" {
			expr = &ast.SelectorExpr{
				X:   ast.NewIdent(pkgName),
				Sel: expr.(*ast.Ident),
			}
		}

		// TODO(hxjiang): call t.TypeArgs after adding method TypeArgs() to
		// typesinternal.NamedOrAlias.
		if hasTypeArgs, ok := t.(interface{ TypeArgs() *types.TypeList }); ok {
			if typeArgs := hasTypeArgs.TypeArgs(); typeArgs != nil && typeArgs.Len() > 0 {
				var indices []ast.Expr
				for i := range typeArgs.Len() {
					indices = append(indices, TypeExpr(typeArgs.At(i), qual))
				}
				expr = &ast.IndexListExpr{
					X:       expr,
					Indices: indices,
				}
			}
		}

		return expr

	case *types.Struct:
		return ast.NewIdent(t.String())

	case *types.Interface:
		return ast.NewIdent(t.String())

	case *types.Union:
		if t.Len() == 0 {
			panic("Union type should have at least one term")
		}
		// Same as go/ast, the return expression will put last term in the
		// Y field at topmost level of BinaryExpr.
		// For union of type "float32 | float64 | int64", the structure looks
		// similar to:
		// {
		// 	X: {
		// 		X: float32,
		// 		Op: |
		// 		Y: float64,
		// 	}
		// 	Op: |,
		// 	Y: int64,
		// }
		var union ast.Expr
		for i := range t.Len() {
			term := t.Term(i)
			termExpr := TypeExpr(term.Type(), qual)
			if term.Tilde() {
				termExpr = &ast.UnaryExpr{
					Op: token.TILDE,
					X:  termExpr,
				}
			}
			if i == 0 {
				union = termExpr
			} else {
				union = &ast.BinaryExpr{
					X:  union,
					Op: token.OR,
					Y:  termExpr,
				}
			}
		}
		return union

	case *types.Tuple:
		panic("invalid input type types.Tuple")

	default:
		panic("unreachable")
	}
}
