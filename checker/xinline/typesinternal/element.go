// Copyright 2024 The Go Authors. All rights reserved.
// Use of this source code is governed by a BSD-style
// license that can be found in the LICENSE file.

package typesinternal

import (
	"fmt"
	"go/types"

	"golang.org/x/tools/go/types/typeutil"
)

// ForEachElement calls f for type T and each type reachable from its
// type through reflection. It does this by recursively stripping off
// type constructors; in addition, for each named type N, the type *N
// is added to the result as it may have additional methods.
//
// The caller must provide an initially empty set used to de-duplicate
// identical types, potentially across multiple calls to ForEachElement.
// (Its final value holds all the elements seen, matching the arguments
// passed to f.)
//
// TODO(adonovan): share/harmonize with go/callgraph/rta.
func ForEachElement(rtypes *typeutil.Map, msets *typeutil.MethodSetCache, T types.Type, f func(types.Type)) {
	var visit func(T types.Type, skip bool)
	visit = func(T types.Type, skip bool) {
		if !skip {
			if seen, _ := rtypes.Set(T, true).(bool); seen {
				return // de-dup
			}

			f(T) // notify caller of new element type
		}

		// Recursion over signatures of each method.
		tmset := msets.MethodSet(T)
		for i := 0; i < tmset.Len(); i++ {
			sig := tmset.At(i).Type().(*types.Signature)
			// It is tempting to call visit(sig, false)
			// but, as noted in golang.org/cl/65450043,
			// the Signature.Recv field is ignored by
			// types.Identical and typeutil.Map, which
			// is confusing at best.
			//
			// More importantly, the true signature rtype
			// reachable from a method using reflection
			// has no receiver but an extra ordinary parameter.
			// For the Read method of io.Reader we want:
			//   func(Reader, []byte) (int, error)
			// but here sig is:
			//   func([]byte) (int, error)
			// with .Recv = Reader (though it is hard to
			// notice because it doesn't affect Signature.String
			// or types.Identical).
			//
			// TODO(adonovan): construct and visit the correct
			// non-method signature with an extra parameter
			// (though since unnamed func types have no methods
			// there is essentially no actual demand for this).
			//
			// TODO(adonovan): document whether or not it is
			// safe to skip non-exported methods (as RTA does).
			visit(sig.Params(), true)  // skip the Tuple
			visit(sig.Results(), true) // skip the Tuple
		}

		switch T := T.(type) {
		case *types.Alias:
			visit(types.Unalias(T), skip) // emulates the pre-Alias behavior

		case *types.Basic:
			// nop

		case *types.Interface:
			// nop---handled by recursion over method set.

		case *types.Pointer:
			visit(T.Elem(), false)

		case *types.Slice:
			visit(T.Elem(), false)

		case *types.Chan:
			visit(T.Elem(), false)

		case *types.Map:
			visit(T.Key(), false)
			visit(T.Elem(), false)

		case *types.Signature:
			if T.Recv() != nil {
				panic(fmt.Sprintf("Signature %s has Recv %s", T, T.Recv()))
			}
			visit(T.Params(), true)  // skip the Tuple
			visit(T.Results(), true) // skip the Tuple

		case *types.Named:
			// A pointer-to-named type can be derived from a named
			// type via reflection.  It may have methods too.
			visit(types.NewPointer(T), false)

			// Consider 'type T struct{S}' where S has methods.
			// Reflection provides no way to get from T to struct{S},
			// only to S, so the method set of struct{S} is unwanted,
			// so set 'skip' flag during recursion.
			visit(T.Underlying(), true) // skip the unnamed type

		case *types.Array:
			visit(T.Elem(), false)

		case *types.Struct:
			for i, n := 0, T.NumFields(); i < n; i++ {
				// TODO(adonovan): document whether or not
				// it is safe to skip non-exported fields.
				visit(T.Field(i).Type(), false)
			}

		case *types.Tuple:
			for i, n := 0, T.Len(); i < n; i++ {
				visit(T.At(i).Type(), false)
			}

		case *types.TypeParam, *types.Union:
			// forEachReachable must not be called on parameterized types.
			panic(T)

		default:
			panic(T)
		}
	}
	visit(T, false)
}
