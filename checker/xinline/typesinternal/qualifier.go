// Copyright 2024 The Go Authors. All rights reserved.
// Use of this source code is governed by a BSD-style
// license that can be found in the LICENSE file.

package typesinternal

import (
	"go/ast"
	"go/types"
	"strconv"
)

// FileQualifier returns a [types.Qualifier] function that qualifies
// imported symbols appropriately based on the import environment of a given
// file.
// If the same package is imported multiple times, the last appearance is
// recorded.
func FileQualifier(f *ast.File, pkg *types.Package) types.Qualifier {
	// Construct mapping of import paths to their defined names.
	// It is only necessary to look at renaming imports.
	imports := make(map[string]string)
	for _, imp := range f.Imports {
		if imp.Name != nil && imp.Name.Name != "_" {
			path, _ := strconv.Unquote(imp.Path.Value)
			imports[path] = imp.Name.Name
		}
	}

	// Define qualifier to replace full package paths with names of the imports.
	return func(p *types.Package) string {
		if p == nil || p == pkg {
			return ""
		}

		if name, ok := imports[p.Path()]; ok {
			if name == "." {
				return ""
			} else {
				return name
			}
		}

		// If there is no local renaming, fall back to the package name.
		return p.Name()
	}
}
