// Copyright 2024 The Go Authors. All rights reserved.
// Use of this source code is governed by a BSD-style
// license that can be found in the LICENSE file.

package typesinternal

import (
	"go/types"

	"lncverif/xinline/stdlib"
	"lncverif/xinline/versions"
)

// TooNewStdSymbols computes the set of package-level symbols
// exported by pkg that are not available at the specified version.
// The result maps each symbol to its minimum version.
//
// The pkg is allowed to contain type errors.
func TooNewStdSymbols(pkg *types.Package, version string) map[types.Object]string {
	disallowed := make(map[types.Object]string)

	// Pass 1: package-level symbols.
	symbols := stdlib.PackageSymbols[pkg.Path()]
	for _, sym := range symbols {
		symver := sym.Version.String()
		if versions.Before(version, symver) {
			switch sym.Kind {
			case stdlib.Func, stdlib.Var, stdlib.Const, stdlib.Type:
				disallowed[pkg.Scope().Lookup(sym.Name)] = symver
			}
		}
	}

	// Pass 2: fields and methods.
	//
	// We allow fields and methods if their associated type is
	// disallowed, as otherwise we would report false positives
	// for compatibility shims. Consider:
	//
	//   //go:build go1.22
	//   type T struct { F std.Real } // correct new API
	//
	//   //go:build !go1.22
	//   type T struct { F fake } // shim
	//   type fake struct { ... }
	//   func (fake) M () {}
	//
	// These alternative declarations of T use either the std.Real
	// type, introduced in go1.22, or a fake type, for the field
	// F. (The fakery could be arbitrarily deep, involving more
	// nested fields and methods than are shown here.) Clients
	// that use the compatibility shim T will compile with any
	// version of go, whether older or newer than go1.22, but only
	// the newer version will use the std.Real implementation.
	//
	// Now consider a reference to method M in new(T).F.M() in a
	// module that requires a minimum of go1.21. The analysis may
	// occur using a version of Go higher than 1.21, selecting the
	// first version of T, so the method M is Real.M. This would
	// spuriously cause the analyzer to report a reference to a
	// too-new symbol even though this expression compiles just
	// fine (with the fake implementation) using go1.21.
	for _, sym := range symbols {
		symVersion := sym.Version.String()
		if !versions.Before(version, symVersion) {
			continue // allowed
		}

		var obj types.Object
		switch sym.Kind {
		case stdlib.Field:
			typename, name := sym.SplitField()
			if t := pkg.Scope().Lookup(typename); t != nil && disallowed[t] == "" {
				obj, _, _ = types.LookupFieldOrMethod(t.Type(), false, pkg, name)
			}

		case stdlib.Method:
			ptr, recvname, name := sym.SplitMethod()
			if t := pkg.Scope().Lookup(recvname); t != nil && disallowed[t] == "" {
				obj, _, _ = types.LookupFieldOrMethod(t.Type(), ptr, pkg, name)
			}
		}
		if obj != nil {
			disallowed[obj] = symVersion
		}
	}

	return disallowed
}
