// Copyright 2020 The Go Authors. All rights reserved.
// Use of this source code is governed by a BSD-style
// license that can be found in the LICENSE file.

package typesinternal

//go:generate stringer -type=ErrorCode

type ErrorCode int

// This file defines the error codes that can be produced during type-checking.
// Collectively, these codes provide an identifier that may be used to
// implement special handling for certain types of errors.
//
// Error codes should be fine-grained enough that the exact nature of the error
// can be easily determined, but coarse enough that they are not an
// implementation detail of the type checking algorithm. As a rule-of-thumb,
// errors should be considered equivalent if there is a theoretical refactoring
// of the type checker in which they are emitted in exactly one place. For
// example, the type checker emits different error messages for "too many
// arguments" and "too few arguments", but one can imagine an alternative type
// checker where this check instead just emits a single "wrong number of
// arguments", so these errors should have the same code.
//
// Error code names should be as brief as possible while retaining accuracy and
// distinctiveness. In most cases names should start with an adjective
// describing the nature of the error (e.g. "invalid", "unused", "misplaced"),
// and end with a noun identifying the relevant language object. For example,
// "DuplicateDecl" or "InvalidSliceExpr". For brevity, naming follows the
// convention that "bad" implies a problem with syntax, and "invalid" implies a
// problem with types.

const (
	// InvalidSyntaxTree occurs if an invalid syntax tree is provided
	// to the type checker. It should never happen.
	InvalidSyntaxTree ErrorCode = -1
)

const (
	_ ErrorCode = iota

	// Test is reserved for errors that only apply while in self-test mode.
	Test

	/* package names */

	// BlankPkgName occurs when a package name is the blank identifier "_".
	//
	// Per the spec:
	//  "The PackageName must not be the blank identifier."
	BlankPkgName

	// MismatchedPkgName occurs when a file's package name doesn't match the
	// package name already established by other files.
	MismatchedPkgName

	// InvalidPkgUse occurs when a package identifier is used outside of a
	// selector expression.
	//
	// Example:
	//  import "fmt"
	//
	//  var _ = fmt
	InvalidPkgUse

	/* imports */

	// BadImportPath occurs when an import path is not valid.
	BadImportPath

	// BrokenImport occurs when importing a package fails.
	//
	// Example:
	//  import "amissingpackage"
	BrokenImport

	// ImportCRenamed occurs when the special import "C" is renamed. "C" is a
	// pseudo-package, and must not be renamed.
	//
	// Example:
	//  import _ "C"
	ImportCRenamed

	// UnusedImport occurs when an import is unused.
	//
	// Example:
	//  import "fmt"
	//
	//  func main() {}
	UnusedImport

	/* initialization */

	// InvalidInitCycle occurs when an invalid cycle is detected within the
	// initialization graph.
	//
	// Example:
	//  var x int = f()
	//
	//  func f() int { return x }
	InvalidInitCycle

	/* decls */

	// DuplicateDecl occurs when an identifier is declared multiple times.
	//
	// Example:
	//  var x = 1
	//  var x = 2
	DuplicateDecl

	// InvalidDeclCycle occurs when a declaration cycle is not valid.
	//
	// Example:
	//  import "unsafe"
	//
	//  type T struct {
	//  	a [n]int
	//  }
	//
	//  var n = unsafe.Sizeof(T{})
	InvalidDeclCycle

	// InvalidTypeCycle occurs when a cycle in type definitions results in a
	// type that is not well-defined.
	//
	// Example:
	//  import "unsafe"
	//
	//  type T [unsafe.Sizeof(T{})]int
	InvalidTypeCycle

	/* decls > const */

	// InvalidConstInit occurs when a const declaration has a non-constant
	// initializer.
	//
	// Example:
	//  var x int
	//  const _ = x
	InvalidConstInit

	// InvalidConstVal occurs when a const value cannot be converted to its
	// target type.
	//
	// TODO(findleyr): this error code and example are not very clear. Consider
	// removing it.
	//
	// Example:
	//  const _ = 1 << "hello"
	InvalidConstVal

	// InvalidConstType occurs when the underlying type in a const declaration
	// is not a valid constant type.
	//
	// Example:
	//  const c *int = 4
	InvalidConstType

	/* decls > var (+ other variable assignment codes) */

	// UntypedNilUse occurs when the predeclared (untyped) value nil is used to
	// initialize a variable declared without an explicit type.
	//
	// Example:
	//  var x = nil
	UntypedNilUse

	// WrongAssignCount occurs when the number of values on the right-hand side
	// of an assignment or initialization expression does not match the number
	// of variables on the left-hand side.
	//
	// Example:
	//  var x = 1, 2
	WrongAssignCount

	// UnassignableOperand occurs when the left-hand side of an assignment is
	// not assignable.
	//
	// Example:
	//  func f() {
	//  	const c = 1
	//  	c = 2
	//  }
	UnassignableOperand

	// NoNewVar occurs when a short variable declaration (':=') does not declare
	// new variables.
	//
	// Example:
	//  func f() {
	//  	x := 1
	//  	x := 2
	//  }
	NoNewVar

	// MultiValAssignOp occurs when an assignment operation (+=, *=, etc) does
	// not have single-valued left-hand or right-hand side.
	//
	// Per the spec:
	//  "In assignment operations, both the left- and right-hand expression lists
	//  must contain exactly one single-valued expression"
	//
	// Example:
	//  func f() int {
	//  	x, y := 1, 2
	//  	x, y += 1
	//  	return x + y
	//  }
	MultiValAssignOp

	// InvalidIfaceAssign occurs when a value of type T is used as an
	// interface, but T does not implement a method of the expected interface.
	//
	// Example:
	//  type I interface {
	//  	f()
	//  }
	//
	//  type T int
	//
	//  var x I = T(1)
	InvalidIfaceAssign

	// InvalidChanAssign occurs when a chan assignment is invalid.
	//
	// Per the spec, a value x is assignable to a channel type T if:
	//  "x is a bidirectional channel value, T is a channel type, x's type V and
	//  T have identical element types, and at least one of V or T is not a
	//  defined type."
	//
	// Example:
	//  type T1 chan int
	//  type T2 chan int
	//
	//  var x T1
	//  // Invalid assignment because both types are named
	//  var _ T2 = x
	InvalidChanAssign

	// IncompatibleAssign occurs when the type of the right-hand side expression
	// in an assignment cannot be assigned to the type of the variable being
	// assigned.
	//
	// Example:
	//  var x []int
	//  var _ int = x
	IncompatibleAssign

	// UnaddressableFieldAssign occurs when trying to assign to a struct field
	// in a map value.
	//
	// Example:
	//  func f() {
	//  	m := make(map[string]struct{i int})
	//  	m["foo"].i = 42
	//  }
	UnaddressableFieldAssign

	/* decls > type (+ other type expression codes) */

	// NotAType occurs when the identifier used as the underlying type in a type
	// declaration or the right-hand side of a type alias does not denote a type.
	//
	// Example:
	//  var S = 2
	//
	//  type T S
	NotAType

	// InvalidArrayLen occurs when an array length is not a constant value.
	//
	// Example:
	//  var n = 3
	//  var _ = [n]int{}
	InvalidArrayLen

	// BlankIfaceMethod occurs when a method name is '_'.
	//
	// Per the spec:
	//  "The name of each explicitly specified method must be unique and not
	//  blank."
	//
	// Example:
	//  type T interface {
	//  	_(int)
	//  }
	BlankIfaceMethod

	// IncomparableMapKey occurs when a map key type does not support the == and
	// != operators.
	//
	// Per the spec:
	//  "The comparison operators == and != must be fully defined for operands of
	//  the key type; thus the key type must not be a function, map, or slice."
	//
	// Example:
	//  var x map[T]int
	//
	//  type T []int
	IncomparableMapKey

	// InvalidIfaceEmbed occurs when a non-interface type is embedded in an
	// interface.
	//
	// Example:
	//  type T struct {}
	//
	//  func (T) m()
	//
	//  type I interface {
	//  	T
	//  }
	InvalidIfaceEmbed

	// InvalidPtrEmbed occurs when an embedded field is of the pointer form *T,
	// and T itself is itself a pointer, an unsafe.Pointer, or an interface.
	//
	// Per the spec:
	//  "An embedded field must be specified as a type name T or as a pointer to
	//  a non-interface type name *T, and T itself may not be a pointer type."
	//
	// Example:
	//  type T *int
	//
	//  type S struct {
	//  	*T
	//  }
	InvalidPtrEmbed

	/* decls > func and method */

	// BadRecv occurs when a method declaration does not have exactly one
	// receiver parameter.
	//
	// Example:
	//  func () _() {}
	BadRecv

	// InvalidRecv occurs when a receiver type expression is not of the form T
	// or *T, or T is a pointer type.
	//
	// Example:
	//  type T struct {}
	//
	//  func (**T) m() {}
	InvalidRecv

	// DuplicateFieldAndMethod occurs when an identifier appears as both a field
	// and method name.
	//
	// Example:
	//  type T struct {
	//  	m int
	//  }
	//
	//  func (T) m() {}
	DuplicateFieldAndMethod

	// DuplicateMethod occurs when two methods on the same receiver type have
	// the same name.
	//
	// Example:
	//  type T struct {}
	//  func (T) m() {}
	//  func (T) m(i int) int { return i }
	DuplicateMethod

	/* decls > special */

	// InvalidBlank occurs when a blank identifier is used as a value or type.
	//
	// Per the spec:
	//  "The blank identifier may appear as an operand only on the left-hand side
	//  of an assignment."
	//
	// Example:
	//  var x = _
	InvalidBlank

	// InvalidIota occurs when the predeclared identifier iota is used outside
	// of a constant declaration.
	//
	// Example:
	//  var x = iota
	InvalidIota

	// MissingInitBody occurs when an init function is missing its body.
	//
	// Example:
	//  func init()
	MissingInitBody

	// InvalidInitSig occurs when an init function declares parameters or
	// results.
	//
	// Example:
	//  func init() int { return 1 }
	InvalidInitSig

	// InvalidInitDecl occurs when init is declared as anything other than a
	// function.
	//
	// Example:
	//  var init = 1
	InvalidInitDecl

	// InvalidMainDecl occurs when main is declared as anything other than a
	// function, in a main package.
	InvalidMainDecl

	/* exprs */

	// TooManyValues occurs when a function returns too many values for the
	// expression context in which it is used.
	//
	// Example:
	//  func ReturnTwo() (int, int) {
	//  	return 1, 2
	//  }
	//
	//  var x = ReturnTwo()
	TooManyValues

	// NotAnExpr occurs when a type expression is used where a value expression
	// is expected.
	//
	// Example:
	//  type T struct {}
	//
	//  func f() {
	//  	T
	//  }
	NotAnExpr

	/* exprs > const */

	// TruncatedFloat occurs when a float constant is truncated to an integer
	// value.
	//
	// Example:
	//  var _ int = 98.6
	TruncatedFloat

	// NumericOverflow occurs when a numeric constant overflows its target type.
	//
	// Example:
	//  var x int8 = 1000
	NumericOverflow

	/* exprs > operation */

	// UndefinedOp occurs when an operator is not defined for the type(s) used
	// in an operation.
	//
	// Example:
	//  var c = "a" - "b"
	UndefinedOp

	// MismatchedTypes occurs when operand types are incompatible in a binary
	// operation.
	//
	// Example:
	//  var a = "hello"
	//  var b = 1
	//  var c = a - b
	MismatchedTypes

	// DivByZero occurs when a division operation is provable at compile
	// time to be a division by zero.
	//
	// Example:
	//  const divisor = 0
	//  var x int = 1/divisor
	DivByZero

	// NonNumericIncDec occurs when an increment or decrement operator is
	// applied to a non-numeric value.
	//
	// Example:
	//  func f() {
	//  	var c = "c"
	//  	c++
	//  }
	NonNumericIncDec

	/* exprs > ptr */

	// UnaddressableOperand occurs when the & operator is applied to an
	// unaddressable expression.
	//
	// Example:
	//  var x = &1
	UnaddressableOperand

	// InvalidIndirection occurs when a non-pointer value is indirected via the
	// '*' operator.
	//
	// Example:
	//  var x int
	//  var y = *x
	InvalidIndirection

	/* exprs > [] */

	// NonIndexableOperand occurs when an index operation is applied to a value
	// that cannot be indexed.
	//
	// Example:
	//  var x = 1
	//  var y = x[1]
	NonIndexableOperand

	// InvalidIndex occurs when an index argument is not of integer type,
	// negative, or out-of-bounds.
	//
	// Example:
	//  var s = [...]int{1,2,3}
	//  var x = s[5]
	//
	// Example:
	//  var s = []int{1,2,3}
	//  var _ = s[-1]
	//
	// Example:
	//  var s = []int{1,2,3}
	//  var i string
	//  var _ = s[i]
	InvalidIndex

	// SwappedSliceIndices occurs when constant indices in a slice expression
	// are decreasing in value.
	//
	// Example:
	//  var _ = []int{1,2,3}[2:1]
	SwappedSliceIndices

	/* operators > slice */

	// NonSliceableOperand occurs when a slice operation is applied to a value
	// whose type is not sliceable, or is unaddressable.
	//
	// Example:
	//  var x = [...]int{1, 2, 3}[:1]
	//
	// Example:
	//  var x = 1
	//  var y = 1[:1]
	NonSliceableOperand

	// InvalidSliceExpr occurs when a three-index slice expression (a[x:y:z]) is
	// applied to a string.
	//
	// Example:
	//  var s = "hello"
	//  var x = s[1:2:3]
	InvalidSliceExpr

	/* exprs > shift */

	// InvalidShiftCount occurs when the right-hand side of a shift operation is
	// either non-integer, negative, or too large.
	//
	// Example:
	//  var (
	//  	x string
	//  	y int = 1 << x
	//  )
	InvalidShiftCount

	// InvalidShiftOperand occurs when the shifted operand is not an integer.
	//
	// Example:
	//  var s = "hello"
	//  var x = s << 2
	InvalidShiftOperand

	/* exprs > chan */

	// InvalidReceive occurs when there is a channel receive from a value that
	// is either not a channel, or is a send-only channel.
	//
	// Example:
	//  func f() {
	//  	var x = 1
	//  	<-x
	//  }
	InvalidReceive

	// InvalidSend occurs when there is a channel send to a value that is not a
	// channel, or is a receive-only channel.
	//
	// Example:
	//  func f() {
	//  	var x = 1
	//  	x <- "hello!"
	//  }
	InvalidSend

	/* exprs > literal */

	// DuplicateLitKey occurs when an index is duplicated in a slice, array, or
	// map literal.
	//
	// Example:
	//  var _ = []int{0:1, 0:2}
	//
	// Example:
	//  var _ = map[string]int{"a": 1, "a": 2}
	DuplicateLitKey

	// MissingLitKey occurs when a map literal is missing a key expression.
	//
	// Example:
	//  var _ = map[string]int{1}
	MissingLitKey

	// InvalidLitIndex occurs when the key in a key-value element of a slice or
	// array literal is not an integer constant.
	//
	// Example:
	//  var i = 0
	//  var x = []string{i: "world"}
	InvalidLitIndex

	// OversizeArrayLit occurs when an array literal exceeds its length.
	//
	// Example:
	//  var _ = [2]int{1,2,3}
	OversizeArrayLit

	// MixedStructLit occurs when a struct literal contains a mix of positional
	// and named elements.
	//
	// Example:
	//  var _ = struct{i, j int}{i: 1, 2}
	MixedStructLit

	// InvalidStructLit occurs when a positional struct literal has an incorrect
	// number of values.
	//
	// Example:
	//  var _ = struct{i, j int}{1,2,3}
	InvalidStructLit

	// MissingLitField occurs when a struct literal refers to a field that does
	// not exist on the struct type.
	//
	// Example:
	//  var _ = struct{i int}{j: 2}
	MissingLitField

	// DuplicateLitField occurs when a struct literal contains duplicated
	// fields.
	//
	// Example:
	//  var _ = struct{i int}{i: 1, i: 2}
	DuplicateLitField

	// UnexportedLitField occurs when a positional struct literal implicitly
	// assigns an unexported field of an imported type.
	UnexportedLitField

	// InvalidLitField occurs when a field name is not a valid identifier.
	//
	// Example:
	//  var _ = struct{i int}{1: 1}
	InvalidLitField

	// UntypedLit occurs when a composite literal omits a required type
	// identifier.
	//
	// Example:
	//  type outer struct{
	//  	inner struct { i int }
	//  }
	//
	//  var _ = outer{inner: {1}}
	UntypedLit

	// InvalidLit occurs when a composite literal expression does not match its
	// type.
	//
	// Example:
	//  type P *struct{
	//  	x int
	//  }
	//  var _ = P {}
	InvalidLit

	/* exprs > selector */

	// AmbiguousSelector occurs when a selector is ambiguous.
	//
	// Example:
	//  type E1 struct { i int }
	//  type E2 struct { i int }
	//  type T struct { E1; E2 }
	//
	//  var x T
	//  var _ = x.i
	AmbiguousSelector

	// UndeclaredImportedName occurs when a package-qualified identifier is
	// undeclared by the imported package.
	//
	// Example:
	//  import "go/types"
	//
	//  var _ = types.NotAnActualIdentifier
	UndeclaredImportedName

	// UnexportedName occurs when a selector refers to an unexported identifier
	// of an imported package.
	//
	// Example:
	//  import "reflect"
	//
	//  type _ reflect.flag
	UnexportedName

	// UndeclaredName occurs when an identifier is not declared in the current
	// scope.
	//
	// Example:
	//  var x T
	UndeclaredName

	// MissingFieldOrMethod occurs when a selector references a field or method
	// that does not exist.
	//
	// Example:
	//  type T struct {}
	//
	//  var x = T{}.f
	MissingFieldOrMethod

	/* exprs > ... */

	// BadDotDotDotSyntax occurs when a "..." occurs in a context where it is
	// not valid.
	//
	// Example:
	//  var _ = map[int][...]int{0: {}}
	BadDotDotDotSyntax

	// NonVariadicDotDotDot occurs when a "..." is used on the final argument to
	// a non-variadic function.
	//
	// Example:
	//  func printArgs(s []string) {
	//  	for _, a := range s {
	//  		println(a)
	//  	}
	//  }
	//
	//  func f() {
	//  	s := []string{"a", "b", "c"}
	//  	printArgs(s...)
	//  }
	NonVariadicDotDotDot

	// MisplacedDotDotDot occurs when a "..." is used somewhere other than the
	// final argument to a function call.
	//
	// Example:
	//  func printArgs(args ...int) {
	//  	for _, a := range args {
	//  		println(a)
	//  	}
	//  }
	//
	//  func f() {
	//  	a := []int{1,2,3}
	//  	printArgs(0, a...)
	//  }
	MisplacedDotDotDot

	// InvalidDotDotDotOperand occurs when a "..." operator is applied to a
	// single-valued operand.
	//
	// Example:
	//  func printArgs(args ...int) {
	//  	for _, a := range args {
	//  		println(a)
	//  	}
	//  }
	//
	//  func f() {
	//  	a := 1
	//  	printArgs(a...)
	//  }
	//
	// Example:
	//  func args() (int, int) {
	//  	return 1, 2
	//  }
	//
	//  func printArgs(args ...int) {
	//  	for _, a := range args {
	//  		println(a)
	//  	}
	//  }
	//
	//  func g() {
	//  	printArgs(args()...)
	//  }
	InvalidDotDotDotOperand

	// InvalidDotDotDot occurs when a "..." is used in a non-variadic built-in
	// function.
	//
	// Example:
	//  var s = []int{1, 2, 3}
	//  var l = len(s...)
	InvalidDotDotDot

	/* exprs > built-in */

	// UncalledBuiltin occurs when a built-in function is used as a
	// function-valued expression, instead of being called.
	//
	// Per the spec:
	//  "The built-in functions do not have standard Go types, so they can only
	//  appear in call expressions; they cannot be used as function values."
	//
	// Example:
	//  var _ = copy
	UncalledBuiltin

	// InvalidAppend occurs when append is called with a first argument that is
	// not a slice.
	//
	// Example:
	//  var _ = append(1, 2)
	InvalidAppend

	// InvalidCap occurs when an argument to the cap built-in function is not of
	// supported type.
	//
	// See https://golang.org/ref/spec#Length_and_capacity for information on
	// which underlying types are supported as arguments to cap and len.
	//
	// Example:
	//  var s = 2
	//  var x = cap(s)
	InvalidCap

	// InvalidClose occurs when close(...) is called with an argument that is
	// not of channel type, or that is a receive-only channel.
	//
	// Example:
	//  func f() {
	//  	var x int
	//  	close(x)
	//  }
	InvalidClose

	// InvalidCopy occurs when the arguments are not of slice type or do not
	// have compatible type.
	//
	// See https://golang.org/ref/spec#Appending_and_copying_slices for more
	// information on the type requirements for the copy built-in.
	//
	// Example:
	//  func f() {
	//  	var x []int
	//  	y := []int64{1,2,3}
	//  	copy(x, y)
	//  }
	InvalidCopy

	// InvalidComplex occurs when the complex built-in function is called with
	// arguments with incompatible types.
	//
	// Example:
	//  var _ = complex(float32(1), float64(2))
	InvalidComplex

	// InvalidDelete occurs when the delete built-in function is called with a
	// first argument that is not a map.
	//
	// Example:
	//  func f() {
	//  	m := "hello"
	//  	delete(m, "e")
	//  }
	InvalidDelete

	// InvalidImag occurs when the imag built-in function is called with an
	// argument that does not have complex type.
	//
	// Example:
	//  var _ = imag(int(1))
	InvalidImag

	// InvalidLen occurs when an argument to the len built-in function is not of
	// supported type.
	//
	// See https://golang.org/ref/spec#Length_and_capacity for information on
	// which underlying types are supported as arguments to cap and len.
	//
	// Example:
	//  var s = 2
	//  var x = len(s)
	InvalidLen

	// SwappedMakeArgs occurs when make is called with three arguments, and its
	// length argument is larger than its capacity argument.
	//
	// Example:
	//  var x = make([]int, 3, 2)
	SwappedMakeArgs

	// InvalidMake occurs when make is called with an unsupported type argument.
	//
	// See https://golang.org/ref/spec#Making_slices_maps_and_channels for
	// information on the types that may be created using make.
	//
	// Example:
	//  var x = make(int)
	InvalidMake

	// InvalidReal occurs when the real built-in function is called with an
	// argument that does not have complex type.
	//
	// Example:
	//  var _ = real(int(1))
	InvalidReal

	/* exprs > assertion */

	// InvalidAssert occurs when a type assertion is applied to a
	// value that is not of interface type.
	//
	// Example:
	//  var x = 1
	//  var _ = x.(float64)
	InvalidAssert

	// ImpossibleAssert occurs for a type assertion x.(T) when the value x of
	// interface cannot have dynamic type T, due to a missing or mismatching
	// method on T.
	//
	// Example:
	//  type T int
	//
	//  func (t *T) m() int { return int(*t) }
	//
	//  type I interface { m() int }
	//
	//  var x I
	//  var _ = x.(T)
	ImpossibleAssert

	/* exprs > conversion */

	// InvalidConversion occurs when the argument type cannot be converted to the
	// target.
	//
	// See https://golang.org/ref/spec#Conversions for the rules of
	// convertibility.
	//
	// Example:
	//  var x float64
	//  var _ = string(x)
	InvalidConversion

	// InvalidUntypedConversion occurs when an there is no valid implicit
	// conversion from an untyped value satisfying the type constraints of the
	// context in which it is used.
	//
	// Example:
	//  var _ = 1 + ""
	InvalidUntypedConversion

	/* offsetof */

	// BadOffsetofSyntax occurs when unsafe.Offsetof is called with an argument
	// that is not a selector expression.
	//
	// Example:
	//  import "unsafe"
	//
	//  var x int
	//  var _ = unsafe.Offsetof(x)
	BadOffsetofSyntax

	// InvalidOffsetof occurs when unsafe.Offsetof is called with a method
	// selector, rather than a field selector, or when the field is embedded via
	// a pointer.
	//
	// Per the spec:
	//
	//  "If f is an embedded field, it must be reachable without pointer
	//  indirections through fields of the struct. "
	//
	// Example:
	//  import "unsafe"
	//
	//  type T struct { f int }
	//  type S struct { *T }
	//  var s S
	//  var _ = unsafe.Offsetof(s.f)
	//
	// Example:
	//  import "unsafe"
	//
	//  type S struct{}
	//
	//  func (S) m() {}
	//
	//  var s S
	//  var _ = unsafe.Offsetof(s.m)
	InvalidOffsetof

	/* control flow > scope */

	// UnusedExpr occurs when a side-effect free expression is used as a
	// statement. Such a statement has no effect.
	//
	// Example:
	//  func f(i int) {
	//  	i*i
	//  }
	UnusedExpr

	// UnusedVar occurs when a variable is declared but unused.
	//
	// Example:
	//  func f() {
	//  	x := 1
	//  }
	UnusedVar

	// MissingReturn occurs when a function with results is missing a return
	// statement.
	//
	// Example:
	//  func f() int {}
	MissingReturn

	// WrongResultCount occurs when a return statement returns an incorrect
	// number of values.
	//
	// Example:
	//  func ReturnOne() int {
	//  	return 1, 2
	//  }
	WrongResultCount

	// OutOfScopeResult occurs when the name of a value implicitly returned by
	// an empty return statement is shadowed in a nested scope.
	//
	// Example:
	//  func factor(n int) (i int) {
	//  	for i := 2; i < n; i++ {
	//  		if n%i == 0 {
	//  			return
	//  		}
	//  	}
	//  	return 0
	//  }
	OutOfScopeResult

	/* control flow > if */

	// InvalidCond occurs when an if condition is not a boolean expression.
	//
	// Example:
	//  func checkReturn(i int) {
	//  	if i {
	//  		panic("non-zero return")
	//  	}
	//  }
	InvalidCond

	/* control flow > for */

	// InvalidPostDecl occurs when there is a declaration in a for-loop post
	// statement.
	//
	// Example:
	//  func f() {
	//  	for i := 0; i < 10; j := 0 {}
	//  }
	InvalidPostDecl

	// InvalidChanRange occurs when a send-only channel used in a range
	// expression.
	//
	// Example:
	//  func sum(c chan<- int) {
	//  	s := 0
	//  	for i := range c {
	//  		s += i
	//  	}
	//  }
	InvalidChanRange

	// InvalidIterVar occurs when two iteration variables are used while ranging
	// over a channel.
	//
	// Example:
	//  func f(c chan int) {
	//  	for k, v := range c {
	//  		println(k, v)
	//  	}
	//  }
	InvalidIterVar

	// InvalidRangeExpr occurs when the type of a range expression is not array,
	// slice, string, map, or channel.
	//
	// Example:
	//  func f(i int) {
	//  	for j := range i {
	//  		println(j)
	//  	}
	//  }
	InvalidRangeExpr

	/* control flow > switch */

	// MisplacedBreak occurs when a break statement is not within a for, switch,
	// or select statement of the innermost function definition.
	//
	// Example:
	//  func f() {
	//  	break
	//  }
	MisplacedBreak

	// MisplacedContinue occurs when a continue statement is not within a for
	// loop of the innermost function definition.
	//
	// Example:
	//  func sumeven(n int) int {
	//  	proceed := func() {
	//  		continue
	//  	}
	//  	sum := 0
	//  	for i := 1; i <= n; i++ {
	//  		if i % 2 != 0 {
	//  			proceed()
	//  		}
	//  		sum += i
	//  	}
	//  	return sum
	//  }
	MisplacedContinue

	// MisplacedFallthrough occurs when a fallthrough statement is not within an
	// expression switch.
	//
	// Example:
	//  func typename(i interface{}) string {
	//  	switch i.(type) {
	//  	case int64:
	//  		fallthrough
	//  	case int:
	//  		return "int"
	//  	}
	//  	return "unsupported"
	//  }
	MisplacedFallthrough

	// DuplicateCase occurs when a type or expression switch has duplicate
	// cases.
	//
	// Example:
	//  func printInt(i int) {
	//  	switch i {
	//  	case 1:
	//  		println("one")
	//  	case 1:
	//  		println("One")
	//  	}
	//  }
	DuplicateCase

	// DuplicateDefault occurs when a type or expression switch has multiple
	// default clauses.
	//
	// Example:
	//  func printInt(i int) {
	//  	switch i {
	//  	case 1:
	//  		println("one")
	//  	default:
	//  		println("One")
	//  	default:
	//  		println("1")
	//  	}
	//  }
	DuplicateDefault

	// BadTypeKeyword occurs when a .(type) expression is used anywhere other
	// than a type switch.
	//
	// Example:
	//  type I interface {
	//  	m()
	//  }
	//  var t I
	//  var _ = t.(type)
	BadTypeKeyword

	// InvalidTypeSwitch occurs when .(type) is used on an expression that is
	// not of interface type.
	//
	// Example:
	//  func f(i int) {
	//  	switch x := i.(type) {}
	//  }
	InvalidTypeSwitch

	// InvalidExprSwitch occurs when a switch expression is not comparable.
	//
	// Example:
	//  func _() {
	//  	var a struct{ _ func() }
	//  	switch a /* ERROR cannot switch on a */ {
	//  	}
	//  }
	InvalidExprSwitch

	/* control flow > select */

	// InvalidSelectCase occurs when a select case is not a channel send or
	// receive.
	//
	// Example:
	//  func checkChan(c <-chan int) bool {
	//  	select {
	//  	case c:
	//  		return true
	//  	default:
	//  		return false
	//  	}
	//  }
	InvalidSelectCase

	/* control flow > labels and jumps */

	// UndeclaredLabel occurs when an undeclared label is jumped to.
	//
	// Example:
	//  func f() {
	//  	goto L
	//  }
	UndeclaredLabel

	// DuplicateLabel occurs when a label is declared more than once.
	//
	// Example:
	//  func f() int {
	//  L:
	//  L:
	//  	return 1
	//  }
	DuplicateLabel

	// MisplacedLabel occurs when a break or continue label is not on a for,
	// switch, or select statement.
	//
	// Example:
	//  func f() {
	//  L:
	//  	a := []int{1,2,3}
	//  	for _, e := range a {
	//  		if e > 10 {
	//  			break L
	//  		}
	//  		println(a)
	//  	}
	//  }
	MisplacedLabel

	// UnusedLabel occurs when a label is declared but not used.
	//
	// Example:
	//  func f() {
	//  L:
	//  }
	UnusedLabel

	// JumpOverDecl occurs when a label jumps over a variable declaration.
	//
	// Example:
	//  func f() int {
	//  	goto L
	//  	x := 2
	//  L:
	//  	x++
	//  	return x
	//  }
	JumpOverDecl

	// JumpIntoBlock occurs when a forward jump goes to a label inside a nested
	// block.
	//
	// Example:
	//  func f(x int) {
	//  	goto L
	//  	if x > 0 {
	//  	L:
	//  		print("inside block")
	//  	}
	// }
	JumpIntoBlock

	/* control flow > calls */

	// InvalidMethodExpr occurs when a pointer method is called but the argument
	// is not addressable.
	//
	// Example:
	//  type T struct {}
	//
	//  func (*T) m() int { return 1 }
	//
	//  var _ = T.m(T{})
	InvalidMethodExpr

	// WrongArgCount occurs when too few or too many arguments are passed by a
	// function call.
	//
	// Example:
	//  func f(i int) {}
	//  var x = f()
	WrongArgCount

	// InvalidCall occurs when an expression is called that is not of function
	// type.
	//
	// Example:
	//  var x = "x"
	//  var y = x()
	InvalidCall

	/* control flow > suspended */

	// UnusedResults occurs when a restricted expression-only built-in function
	// is suspended via go or defer. Such a suspension discards the results of
	// these side-effect free built-in functions, and therefore is ineffectual.
	//
	// Example:
	//  func f(a []int) int {
	//  	defer len(a)
	//  	return i
	//  }
	UnusedResults

	// InvalidDefer occurs when a deferred expression is not a function call,
	// for example if the expression is a type conversion.
	//
	// Example:
	//  func f(i int) int {
	//  	defer int32(i)
	//  	return i
	//  }
	InvalidDefer

	// InvalidGo occurs when a go expression is not a function call, for example
	// if the expression is a type conversion.
	//
	// Example:
	//  func f(i int) int {
	//  	go int32(i)
	//  	return i
	//  }
	InvalidGo

	// All codes below were added in Go 1.17.

	/* decl */

	// BadDecl occurs when a declaration has invalid syntax.
	BadDecl

	// RepeatedDecl occurs when an identifier occurs more than once on the left
	// hand side of a short variable declaration.
	//
	// Example:
	//  func _() {
	//  	x, y, y := 1, 2, 3
	//  }
	RepeatedDecl

	/* unsafe */

	// InvalidUnsafeAdd occurs when unsafe.Add is called with a
	// length argument that is not of integer type.
	//
	// Example:
	//  import "unsafe"
	//
	//  var p unsafe.Pointer
	//  var _ = unsafe.Add(p, float64(1))
	InvalidUnsafeAdd

	// InvalidUnsafeSlice occurs when unsafe.Slice is called with a
	// pointer argument that is not of pointer type or a length argument
	// that is not of integer type, negative, or out of bounds.
	//
	// Example:
	//  import "unsafe"
	//
	//  var x int
	//  var _ = unsafe.Slice(x, 1)
	//
	// Example:
	//  import "unsafe"
	//
	//  var x int
	//  var _ = unsafe.Slice(&x, float64(1))
	//
	// Example:
	//  import "unsafe"
	//
	//  var x int
	//  var _ = unsafe.Slice(&x, -1)
	//
	// Example:
	//  import "unsafe"
	//
	//  var x int
	//  var _ = unsafe.Slice(&x, uint64(1) << 63)
	InvalidUnsafeSlice

	// All codes below were added in Go 1.18.

	/* features */

	// UnsupportedFeature occurs when a language feature is used that is not
	// supported at this Go version.
	UnsupportedFeature

	/* type params */

	// NotAGenericType occurs when a non-generic type is used where a generic
	// type is expected: in type or function instantiation.
	//
	// Example:
	//  type T int
	//
	//  var _ T[int]
	NotAGenericType

	// WrongTypeArgCount occurs when a type or function is instantiated with an
	// incorrect number of type arguments, including when a generic type or
	// function is used without instantiation.
	//
	// Errors involving failed type inference are assigned other error codes.
	//
	// Example:
	//  type T[p any] int
	//
	//  var _ T[int, string]
	//
	// Example:
	//  func f[T any]() {}
	//
	//  var x = f
	WrongTypeArgCount

	// CannotInferTypeArgs occurs when type or function type argument inference
	// fails to infer all type arguments.
	//
	// Example:
	//  func f[T any]() {}
	//
	//  func _() {
	//  	f()
	//  }
	//
	// Example:
	//   type N[P, Q any] struct{}
	//
	//   var _ N[int]
	CannotInferTypeArgs

	// InvalidTypeArg occurs when a type argument does not satisfy its
	// corresponding type parameter constraints.
	//
	// Example:
	//  type T[P ~int] struct{}
	//
	//  var _ T[string]
	InvalidTypeArg // arguments? InferenceFailed

	// InvalidInstanceCycle occurs when an invalid cycle is detected
	// within the instantiation graph.
	//
	// Example:
	//  func f[T any]() { f[*T]() }
	InvalidInstanceCycle

	// InvalidUnion occurs when an embedded union or approximation element is
	// not valid.
	//
	// Example:
	//  type _ interface {
	//   	~int | interface{ m() }
	//  }
	InvalidUnion

	// MisplacedConstraintIface occurs when a constraint-type interface is used
	// outside of constraint position.
	//
	// Example:
	//   type I interface { ~int }
	//
	//   var _ I
	MisplacedConstraintIface

	// InvalidMethodTypeParams occurs when methods have type parameters.
	//
	// It cannot be encountered with an AST parsed using go/parser.
	InvalidMethodTypeParams

	// MisplacedTypeParam occurs when a type parameter is used in a place where
	// it is not permitted.
	//
	// Example:
	//  type T[P any] P
	//
	// Example:
	//  type T[P any] struct{ *P }
	MisplacedTypeParam

	// InvalidUnsafeSliceData occurs when unsafe.SliceData is called with
	// an argument that is not of slice type. It also occurs if it is used
	// in a package compiled for a language version before go1.20.
	//
	// Example:
	//  import "unsafe"
	//
	//  var x int
	//  var _ = unsafe.SliceData(x)
	InvalidUnsafeSliceData

	// InvalidUnsafeString occurs when unsafe.String is called with
	// a length argument that is not of integer type, negative, or
	// out of bounds. It also occurs if it is used in a package
	// compiled for a language version before go1.20.
	//
	// Example:
	//  import "unsafe"
	//
	//  var b [10]byte
	//  var _ = unsafe.String(&b[0], -1)
	InvalidUnsafeString

	// InvalidUnsafeStringData occurs if it is used in a package
	// compiled for a language version before go1.20.
	_ // not used anymore

)
