// Copyright 2022 The Go Authors. All rights reserved.
// Use of this source code is governed by a BSD-style
// license that can be found in the LICENSE file.

package typeparams

import (
	"fmt"
	"go/types"
)

// CoreType returns the core type of T or nil if T does not have a core type.
//
// See https://go.dev/ref/spec#Core_types for the definition of a core type.
func CoreType(T types.Type) types.Type {
	U := T.Underlying()
	if _, ok := U.(*types.Interface); !ok {
		return U // for non-interface types,
	}

	terms, err := NormalTerms(U)
	if len(terms) == 0 || err != nil {
		// len(terms) -> empty type set of interface.
		// err != nil => U is invalid, exceeds complexity bounds, or has an empty type set.
		return nil // no core type.
	}

	U = terms[0].Type().Underlying()
	var identical int // i in [0,identical) => Identical(U, terms[i].Type().Underlying())
	for identical = 1; identical < len(terms); identical++ {
		if !types.Identical(U, terms[identical].Type().Underlying()) {
			break
		}
	}

	if identical == len(terms) {
		// https://go.dev/ref/spec#Core_types
		// "There is a single type U which is the underlying type of all types in the type set of T"
		return U
	}
	ch, ok := U.(*types.Chan)
	if !ok {
		return nil // no core type as identical < len(terms) and U is not a channel.
	}
	// https://go.dev/ref/spec#Core_types
	// "the type chan E if T contains only bidirectional channels, or the type chan<- E or
	// <-chan E depending on the direction of the directional channels present."
	for chans := identical; chans < len(terms); chans++ {
		curr, ok := terms[chans].Type().Underlying().(*types.Chan)
		if !ok {
			return nil
		}
		if !types.Identical(ch.Elem(), curr.Elem()) {
			return nil // channel elements are not identical.
		}
		if ch.Dir() == types.SendRecv {
			// ch is bidirectional. We can safely always use curr's direction.
			ch = curr
		} else if curr.Dir() != types.SendRecv && ch.Dir() != curr.Dir() {
			// ch and curr are not bidirectional and not the same direction.
			return nil
		}
	}
	return ch
}

// NormalTerms returns a slice of terms representing the normalized structural
// type restrictions of a type, if any.
//
// For all types other than *types.TypeParam, *types.Interface, and
// *types.Union, this is just a single term with Tilde() == false and
// Type() == typ. For *types.TypeParam, *types.Interface, and *types.Union, see
// below.
//
// Structural type restrictions of a type parameter are created via
// non-interface types embedded in its constraint interface (directly, or via a
// chain of interface embeddings). For example, in the declaration type
// T[P interface{~int; m()}] int the structural restriction of the type
// parameter P is ~int.
//
// With interface embedding and unions, the specification of structural type
// restrictions may be arbitrarily complex. For example, consider the
// following:
//
//	type A interface{ ~string|~[]byte }
//
//	type B interface{ int|string }
//
//	type C interface { ~string|~int }
//
//	type T[P interface{ A|B; C }] int
//
// In this example, the structural type restriction of P is ~string|int: A|B
// expands to ~string|~[]byte|int|string, which reduces to ~string|~[]byte|int,
// which when intersected with C (~string|~int) yields ~string|int.
//
// NormalTerms computes these expansions and reductions, producing a
// "normalized" form of the embeddings. A structural restriction is normalized
// if it is a single union containing no interface terms, and is minimal in the
// sense that removing any term changes the set of types satisfying the
// constraint. It is left as a proof for the reader that, modulo sorting, there
// is exactly one such normalized form.
//
// Because the minimal representation always takes this form, NormalTerms
// returns a slice of tilde terms corresponding to the terms of the union in
// the normalized structural restriction. An error is returned if the type is
// invalid, exceeds complexity bounds, or has an empty type set. In the latter
// case, NormalTerms returns ErrEmptyTypeSet.
//
// NormalTerms makes no guarantees about the order of terms, except that it
// is deterministic.
func NormalTerms(typ types.Type) ([]*types.Term, error) {
	switch typ := typ.Underlying().(type) {
	case *types.TypeParam:
		return StructuralTerms(typ)
	case *types.Union:
		return UnionTermSet(typ)
	case *types.Interface:
		return InterfaceTermSet(typ)
	default:
		return []*types.Term{types.NewTerm(false, typ)}, nil
	}
}

// Deref returns the type of the variable pointed to by t,
// if t's core type is a pointer; otherwise it returns t.
//
// Do not assume that Deref(T)==T implies T is not a pointer:
// consider "type T *T", for example.
//
// TODO(adonovan): ideally this would live in typesinternal, but that
// creates an import cycle. Move there when we melt this package down.
func Deref(t types.Type) types.Type {
	if ptr, ok := CoreType(t).(*types.Pointer); ok {
		return ptr.Elem()
	}
	return t
}

// MustDeref returns the type of the variable pointed to by t.
// It panics if t's core type is not a pointer.
//
// TODO(adonovan): ideally this would live in typesinternal, but that
// creates an import cycle. Move there when we melt this package down.
func MustDeref(t types.Type) types.Type {
	if ptr, ok := CoreType(t).(*types.Pointer); ok {
		return ptr.Elem()
	}
	panic(fmt.Sprintf("%v is not a pointer", t))
}
