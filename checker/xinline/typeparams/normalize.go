// Copyright 2021 The Go Authors. All rights reserved.
// Use of this source code is governed by a BSD-style
// license that can be found in the LICENSE file.

package typeparams

import (
	"errors"
	"fmt"
	"go/types"
	"os"
	"strings"
)

//go:generate go run copytermlist.go

const debug = false

var ErrEmptyTypeSet = errors.New("empty type set")

// StructuralTerms returns a slice of terms representing the normalized
// structural type restrictions of a type parameter, if any.
//
// Structural type restrictions of a type parameter are created via
// non-interface types embedded in its constraint interface (directly, or via a
// chain of interface embeddings). For example, in the declaration
//
//	type T[P interface{~int; m()}] int
//
// the structural restriction of the type parameter P is ~int.
//
// With interface embedding and unions, the specification of structural type
// restrictions may be arbitrarily complex. For example, consider the
// following:
//
//	type A interface{ ~string|~[]byte }
//
//	type B interface{ int|string }
//
//	type C interface { ~string|~int }
//
//	type T[P interface{ A|B; C }] int
//
// In this example, the structural type restriction of P is ~string|int: A|B
// expands to ~string|~[]byte|int|string, which reduces to ~string|~[]byte|int,
// which when intersected with C (~string|~int) yields ~string|int.
//
// StructuralTerms computes these expansions and reductions, producing a
// "normalized" form of the embeddings. A structural restriction is normalized
// if it is a single union containing no interface terms, and is minimal in the
// sense that removing any term changes the set of types satisfying the
// constraint. It is left as a proof for the reader that, modulo sorting, there
// is exactly one such normalized form.
//
// Because the minimal representation always takes this form, StructuralTerms
// returns a slice of tilde terms corresponding to the terms of the union in
// the normalized structural restriction. An error is returned if the
// constraint interface is invalid, exceeds complexity bounds, or has an empty
// type set. In the latter case, StructuralTerms returns ErrEmptyTypeSet.
//
// StructuralTerms makes no guarantees about the order of terms, except that it
// is deterministic.
func StructuralTerms(tparam *types.TypeParam) ([]*types.Term, error) {
	constraint := tparam.Constraint()
	if constraint == nil {
		return nil, fmt.Errorf("%s has nil constraint", tparam)
	}
	iface, _ := constraint.Underlying().(*types.Interface)
	if iface == nil {
		return nil, fmt.Errorf("constraint is %T, not *types.Interface", constraint.Underlying())
	}
	return InterfaceTermSet(iface)
}

// InterfaceTermSet computes the normalized terms for a constraint interface,
// returning an error if the term set cannot be computed or is empty. In the
// latter case, the error will be ErrEmptyTypeSet.
//
// See the documentation of StructuralTerms for more information on
// normalization.
func InterfaceTermSet(iface *types.Interface) ([]*types.Term, error) {
	return computeTermSet(iface)
}

// UnionTermSet computes the normalized terms for a union, returning an error
// if the term set cannot be computed or is empty. In the latter case, the
// error will be ErrEmptyTypeSet.
//
// See the documentation of StructuralTerms for more information on
// normalization.
func UnionTermSet(union *types.Union) ([]*types.Term, error) {
	return computeTermSet(union)
}

func computeTermSet(typ types.Type) ([]*types.Term, error) {
	tset, err := computeTermSetInternal(typ, make(map[types.Type]*termSet), 0)
	if err != nil {
		return nil, err
	}
	if tset.terms.isEmpty() {
		return nil, ErrEmptyTypeSet
	}
	if tset.terms.isAll() {
		return nil, nil
	}
	var terms []*types.Term
	for _, term := range tset.terms {
		terms = append(terms, types.NewTerm(term.tilde, term.typ))
	}
	return terms, nil
}

// A termSet holds the normalized set of terms for a given type.
//
// The name termSet is intentionally distinct from 'type set': a type set is
// all types that implement a type (and includes method restrictions), whereas
// a term set just represents the structural restrictions on a type.
type termSet struct {
	complete bool
	terms    termlist
}

func indentf(depth int, format string, args ...interface{}) {
	fmt.Fprintf(os.Stderr, strings.Repeat(".", depth)+format+"\n", args...)
}

func computeTermSetInternal(t types.Type, seen map[types.Type]*termSet, depth int) (res *termSet, err error) {
	if t == nil {
		panic("nil type")
	}

	if debug {
		indentf(depth, "%s", t.String())
		defer func() {
			if err != nil {
				indentf(depth, "=> %s", err)
			} else {
				indentf(depth, "=> %s", res.terms.String())
			}
		}()
	}

	const maxTermCount = 100
	if tset, ok := seen[t]; ok {
		if !tset.complete {
			return nil, fmt.Errorf("cycle detected in the declaration of %s", t)
		}
		return tset, nil
	}

	// Mark the current type as seen to avoid infinite recursion.
	tset := new(termSet)
	defer func() {
		tset.complete = true
	}()
	seen[t] = tset

	switch u := t.Underlying().(type) {
	case *types.Interface:
		// The term set of an interface is the intersection of the term sets of its
		// embedded types.
		tset.terms = allTermlist
		for i := 0; i < u.NumEmbeddeds(); i++ {
			embedded := u.EmbeddedType(i)
			if _, ok := embedded.Underlying().(*types.TypeParam); ok {
				return nil, fmt.Errorf("invalid embedded type %T", embedded)
			}
			tset2, err := computeTermSetInternal(embedded, seen, depth+1)
			if err != nil {
				return nil, err
			}
			tset.terms = tset.terms.intersect(tset2.terms)
		}
	case *types.Union:
		// The term set of a union is the union of term sets of its terms.
		tset.terms = nil
		for i := 0; i < u.Len(); i++ {
			t := u.Term(i)
			var terms termlist
			switch t.Type().Underlying().(type) {
			case *types.Interface:
				tset2, err := computeTermSetInternal(t.Type(), seen, depth+1)
				if err != nil {
					return nil, err
				}
				terms = tset2.terms
			case *types.TypeParam, *types.Union:
				// A stand-alone type parameter or union is not permitted as union
				// term.
				return nil, fmt.Errorf("invalid union term %T", t)
			default:
				if t.Type() == types.Typ[types.Invalid] {
					continue
				}
				terms = termlist{{t.Tilde(), t.Type()}}
			}
			tset.terms = tset.terms.union(terms)
			if len(tset.terms) > maxTermCount {
				return nil, fmt.Errorf("exceeded max term count %d", maxTermCount)
			}
		}
	case *types.TypeParam:
		panic("unreachable")
	default:
		// For all other types, the term set is just a single non-tilde term
		// holding the type itself.
		if u != types.Typ[types.Invalid] {
			tset.terms = termlist{{false, t}}
		}
	}
	return tset, nil
}

// under is a facade for the go/types internal function of the same name. It is
// used by typeterm.go.
func under(t types.Type) types.Type {
	return t.Underlying()
}
