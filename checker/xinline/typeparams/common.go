// Copyright 2021 The Go Authors. All rights reserved.
// Use of this source code is governed by a BSD-style
// license that can be found in the LICENSE file.

// Package typeparams contains common utilities for writing tools that
// interact with generic Go code, as introduced with Go 1.18. It
// supplements the standard library APIs. Notably, the StructuralTerms
// API computes a minimal representation of the structural
// restrictions on a type parameter.
//
// An external version of these APIs is available in the
// golang.org/x/exp/typeparams module.
package typeparams

import (
	"go/ast"
	"go/token"
	"go/types"
)

// UnpackIndexExpr extracts data from AST nodes that represent index
// expressions.
//
// For an ast.IndexExpr, the resulting indices slice will contain exactly one
// index expression. For an ast.IndexListExpr (go1.18+), it may have a variable
// number of index expressions.
//
// For nodes that don't represent index expressions, the first return value of
// UnpackIndexExpr will be nil.
func UnpackIndexExpr(n ast.Node) (x ast.Expr, lbrack token.Pos, indices []ast.Expr, rbrack token.Pos) {
	switch e := n.(type) {
	case *ast.IndexExpr:
		return e.X, e.Lbrack, []ast.Expr{e.Index}, e.Rbrack
	case *ast.IndexListExpr:
		return e.X, e.Lbrack, e.Indices, e.Rbrack
	}
	return nil, token.NoPos, nil, token.NoPos
}

// PackIndexExpr returns an *ast.IndexExpr or *ast.IndexListExpr, depending on
// the cardinality of indices. Calling PackIndexExpr with len(indices) == 0
// will panic.
func PackIndexExpr(x ast.Expr, lbrack token.Pos, indices []ast.Expr, rbrack token.Pos) ast.Expr {
	switch len(indices) {
	case 0:
		panic("empty indices")
	case 1:
		return &ast.IndexExpr{
			X:      x,
			Lbrack: lbrack,
			Index:  indices[0],
			Rbrack: rbrack,
		}
	default:
		return &ast.IndexListExpr{
			X:       x,
			Lbrack:  lbrack,
			Indices: indices,
			Rbrack:  rbrack,
		}
	}
}

// IsTypeParam reports whether t is a type parameter (or an alias of one).
func IsTypeParam(t types.Type) bool {
	_, ok := types.Unalias(t).(*types.TypeParam)
	return ok
}
