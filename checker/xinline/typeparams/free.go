// Copyright 2024 The Go Authors. All rights reserved.
// Use of this source code is governed by a BSD-style
// license that can be found in the LICENSE file.

package typeparams

import (
	"go/types"

	"lncverif/xinline/aliases"
)

// Free is a memoization of the set of free type parameters within a
// type. It makes a sequence of calls to [Free.Has] for overlapping
// types more efficient. The zero value is ready for use.
//
// NOTE: Adapted from go/types/infer.go. If it is later exported, factor.
type Free struct {
	seen map[types.Type]bool
}

// Has reports whether the specified type has a free type parameter.
func (w *Free) Has(typ types.Type) (res bool) {
	// detect cycles
	if x, ok := w.seen[typ]; ok {
		return x
	}
	if w.seen == nil {
		w.seen = make(map[types.Type]bool)
	}
	w.seen[typ] = false
	defer func() {
		w.seen[typ] = res
	}()

	switch t := typ.(type) {
	case nil, *types.Basic: // TODO(gri) should nil be handled here?
		break

	case *types.Alias:
		if aliases.TypeParams(t).Len() > aliases.TypeArgs(t).Len() {
			return true // This is an uninstantiated Alias.
		}
		// The expansion of an alias can have free type parameters,
		// whether or not the alias itself has type parameters:
		//
		//   func _[K comparable]() {
		//     type Set      = map[K]bool // free(Set)      = {K}
		//     type MapTo[V] = map[K]V    // free(Map[foo]) = {V}
		//   }
		//
		// So, we must Unalias.
		return w.Has(types.Unalias(t))

	case *types.Array:
		return w.Has(t.Elem())

	case *types.Slice:
		return w.Has(t.Elem())

	case *types.Struct:
		for i, n := 0, t.NumFields(); i < n; i++ {
			if w.Has(t.Field(i).Type()) {
				return true
			}
		}

	case *types.Pointer:
		return w.Has(t.Elem())

	case *types.Tuple:
		n := t.Len()
		for i := 0; i < n; i++ {
			if w.Has(t.At(i).Type()) {
				return true
			}
		}

	case *types.Signature:
		// t.tparams may not be nil if we are looking at a signature
		// of a generic function type (or an interface method) that is
		// part of the type we're testing. We don't care about these type
		// parameters.
		// Similarly, the receiver of a method may declare (rather than
		// use) type parameters, we don't care about those either.
		// Thus, we only need to look at the input and result parameters.
		return w.Has(t.Params()) || w.Has(t.Results())

	case *types.Interface:
		for i, n := 0, t.NumMethods(); i < n; i++ {
			if w.Has(t.Method(i).Type()) {
				return true
			}
		}
		terms, err := InterfaceTermSet(t)
		if err != nil {
			return false // ill typed
		}
		for _, term := range terms {
			if w.Has(term.Type()) {
				return true
			}
		}

	case *types.Map:
		return w.Has(t.Key()) || w.Has(t.Elem())

	case *types.Chan:
		return w.Has(t.Elem())

	case *types.Named:
		args := t.TypeArgs()
		if params := t.TypeParams(); params.Len() > args.Len() {
			return true // this is an uninstantiated named type.
		}
		for i, n := 0, args.Len(); i < n; i++ {
			if w.Has(args.At(i)) {
				return true
			}
		}
		return w.Has(t.Underlying()) // recurse for types local to parameterized functions

	case *types.TypeParam:
		return true

	default:
		panic(t) // unreachable
	}

	return false
}
