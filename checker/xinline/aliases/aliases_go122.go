// Copyright 2024 The Go Authors. All rights reserved.
// Use of this source code is governed by a BSD-style
// license that can be found in the LICENSE file.

package aliases

import (
	"go/ast"
	"go/parser"
	"go/token"
	"go/types"
)

// Rhs returns the type on the right-hand side of the alias declaration.
func Rhs(alias *types.Alias) types.Type {
	if alias, ok := any(alias).(interface{ Rhs() types.Type }); ok {
		return alias.Rhs() // go1.23+
	}

	// go1.22's Alias didn't have the Rhs method,
	// so Unalias is the best we can do.
	return types.Unalias(alias)
}

// TypeParams returns the type parameter list of the alias.
func TypeParams(alias *types.Alias) *types.TypeParamList {
	if alias, ok := any(alias).(interface{ TypeParams() *types.TypeParamList }); ok {
		return alias.TypeParams() // go1.23+
	}
	return nil
}

// SetTypeParams sets the type parameters of the alias type.
func SetTypeParams(alias *types.Alias, tparams []*types.TypeParam) {
	if alias, ok := any(alias).(interface {
		SetTypeParams(tparams []*types.TypeParam)
	}); ok {
		alias.SetTypeParams(tparams) // go1.23+
	} else if len(tparams) > 0 {
		panic("cannot set type parameters of an Alias type in go1.22")
	}
}

// TypeArgs returns the type arguments used to instantiate the Alias type.
func TypeArgs(alias *types.Alias) *types.TypeList {
	if alias, ok := any(alias).(interface{ TypeArgs() *types.TypeList }); ok {
		return alias.TypeArgs() // go1.23+
	}
	return nil // empty (go1.22)
}

// Origin returns the generic Alias type of which alias is an instance.
// If alias is not an instance of a generic alias, Origin returns alias.
func Origin(alias *types.Alias) *types.Alias {
	if alias, ok := any(alias).(interface{ Origin() *types.Alias }); ok {
		return alias.Origin() // go1.23+
	}
	return alias // not an instance of a generic alias (go1.22)
}

// Enabled reports whether [NewAlias] should create [types.Alias] types.
//
// This function is expensive! Call it sparingly.
func Enabled() bool {
	// The only reliable way to compute the answer is to invoke go/types.
	// We don't parse the GODEBUG environment variable, because
	// (a) it's tricky to do so in a manner that is consistent
	//     with the godebug package; in particular, a simple
	//     substring check is not good enough. The value is a
	//     rightmost-wins list of options. But more importantly:
	// (b) it is impossible to detect changes to the effective
	//     setting caused by os.Setenv("GODEBUG"), as happens in
	//     many tests. Therefore any attempt to cache the result
	//     is just incorrect.
	fset := token.NewFileSet()
	f, _ := parser.ParseFile(fset, "a.go", "package p; type A = int", parser.SkipObjectResolution)
	pkg, _ := new(types.Config).Check("p", fset, []*ast.File{f}, nil)
	_, enabled := pkg.Scope().Lookup("A").Type().(*types.Alias)
	return enabled
}
