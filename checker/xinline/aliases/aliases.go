// Copyright 2024 The Go Authors. All rights reserved.
// Use of this source code is governed by a BSD-style
// license that can be found in the LICENSE file.

package aliases

import (
	"go/token"
	"go/types"
)

// Package aliases defines backward compatible shims
// for the types.Alias type representation added in 1.22.
// This defines placeholders for x/tools until 1.26.

// NewAlias creates a new TypeName in Package pkg that
// is an alias for the type rhs.
//
// The enabled parameter determines whether the resulting [TypeName]'s
// type is an [types.Alias]. Its value must be the result of a call to
// [Enabled], which computes the effective value of
// GODEBUG=gotypesalias=... by invoking the type checker. The Enabled
// function is expensive and should be called once per task (e.g.
// package import), not once per call to NewAlias.
//
// Precondition: enabled || len(tparams)==0.
// If materialized aliases are disabled, there must not be any type parameters.
func NewAlias(enabled bool, pos token.Pos, pkg *types.Package, name string, rhs types.Type, tparams []*types.TypeParam) *types.TypeName {
	if enabled {
		tname := types.NewTypeName(pos, pkg, name, nil)
		SetTypeParams(types.NewAlias(tname, rhs), tparams)
		return tname
	}
	if len(tparams) > 0 {
		panic("cannot create an alias with type parameters when gotypesalias is not enabled")
	}
	return types.NewTypeName(pos, pkg, name, rhs)
}
