// Copyright 2023 The Go Authors. All rights reserved.
// Use of this source code is governed by a BSD-style
// license that can be found in the LICENSE file.

// This is a fork of internal/gover for use by x/tools until
// go1.21 and earlier are no longer supported by x/tools.

package versions

import "strings"

// A gover is a parsed Go gover: major[.Minor[.Patch]][kind[pre]]
// The numbers are the original decimal strings to avoid integer overflows
// and since there is very little actual math. (Probably overflow doesn't matter in practice,
// but at the time this code was written, there was an existing test that used
// go1.99999999999, which does not fit in an int on 32-bit platforms.
// The "big decimal" representation avoids the problem entirely.)
type gover struct {
	major string // decimal
	minor string // decimal or ""
	patch string // decimal or ""
	kind  string // "", "alpha", "beta", "rc"
	pre   string // decimal or ""
}

// compare returns -1, 0, or +1 depending on whether
// x < y, x == y, or x > y, interpreted as toolchain versions.
// The versions x and y must not begin with a "go" prefix: just "1.21" not "go1.21".
// Malformed versions compare less than well-formed versions and equal to each other.
// The language version "1.21" compares less than the release candidate and eventual releases "1.21rc1" and "1.21.0".
func compare(x, y string) int {
	vx := parse(x)
	vy := parse(y)

	if c := cmpInt(vx.major, vy.major); c != 0 {
		return c
	}
	if c := cmpInt(vx.minor, vy.minor); c != 0 {
		return c
	}
	if c := cmpInt(vx.patch, vy.patch); c != 0 {
		return c
	}
	if c := strings.Compare(vx.kind, vy.kind); c != 0 { // "" < alpha < beta < rc
		return c
	}
	if c := cmpInt(vx.pre, vy.pre); c != 0 {
		return c
	}
	return 0
}

// lang returns the Go language version. For example, lang("1.2.3") == "1.2".
func lang(x string) string {
	v := parse(x)
	if v.minor == "" || v.major == "1" && v.minor == "0" {
		return v.major
	}
	return v.major + "." + v.minor
}

// isValid reports whether the version x is valid.
func isValid(x string) bool {
	return parse(x) != gover{}
}

// parse parses the Go version string x into a version.
// It returns the zero version if x is malformed.
func parse(x string) gover {
	var v gover

	// Parse major version.
	var ok bool
	v.major, x, ok = cutInt(x)
	if !ok {
		return gover{}
	}
	if x == "" {
		// Interpret "1" as "1.0.0".
		v.minor = "0"
		v.patch = "0"
		return v
	}

	// Parse . before minor version.
	if x[0] != '.' {
		return gover{}
	}

	// Parse minor version.
	v.minor, x, ok = cutInt(x[1:])
	if !ok {
		return gover{}
	}
	if x == "" {
		// Patch missing is same as "0" for older versions.
		// Starting in Go 1.21, patch missing is different from explicit .0.
		if cmpInt(v.minor, "21") < 0 {
			v.patch = "0"
		}
		return v
	}

	// Parse patch if present.
	if x[0] == '.' {
		v.patch, x, ok = cutInt(x[1:])
		if !ok || x != "" {
			// Note that we are disallowing prereleases (alpha, beta, rc) for patch releases here (x != "").
			// Allowing them would be a bit confusing because we already have:
			//	1.21 < 1.21rc1
			// But a prerelease of a patch would have the opposite effect:
			//	1.21.3rc1 < 1.21.3
			// We've never needed them before, so let's not start now.
			return gover{}
		}
		return v
	}

	// Parse prerelease.
	i := 0
	for i < len(x) && (x[i] < '0' || '9' < x[i]) {
		if x[i] < 'a' || 'z' < x[i] {
			return gover{}
		}
		i++
	}
	if i == 0 {
		return gover{}
	}
	v.kind, x = x[:i], x[i:]
	if x == "" {
		return v
	}
	v.pre, x, ok = cutInt(x)
	if !ok || x != "" {
		return gover{}
	}

	return v
}

// cutInt scans the leading decimal number at the start of x to an integer
// and returns that value and the rest of the string.
func cutInt(x string) (n, rest string, ok bool) {
	i := 0
	for i < len(x) && '0' <= x[i] && x[i] <= '9' {
		i++
	}
	if i == 0 || x[0] == '0' && i != 1 { // no digits or unnecessary leading zero
		return "", "", false
	}
	return x[:i], x[i:], true
}

// cmpInt returns cmp.Compare(x, y) interpreting x and y as decimal numbers.
// (Copied from golang.org/x/mod/semver's compareInt.)
func cmpInt(x, y string) int {
	if x == y {
		return 0
	}
	if len(x) < len(y) {
		return -1
	}
	if len(x) > len(y) {
		return +1
	}
	if x < y {
		return -1
	} else {
		return +1
	}
}
