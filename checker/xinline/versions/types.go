// Copyright 2023 The Go Authors. All rights reserved.
// Use of this source code is governed by a BSD-style
// license that can be found in the LICENSE file.

package versions

import (
	"go/ast"
	"go/types"
)

// FileVersion returns a file's Go version.
// The reported version is an unknown Future version if a
// version cannot be determined.
func FileVersion(info *types.Info, file *ast.File) string {
	// In tools built with Go >= 1.22, the Go version of a file
	// follow a cascades of sources:
	// 1) types.Info.FileVersion, which follows the cascade:
	//   1.a) file version (ast.File.GoVersion),
	//   1.b) the package version (types.Config.GoVersion), or
	// 2) is some unknown Future version.
	//
	// File versions require a valid package version to be provided to types
	// in Config.GoVersion. Config.GoVersion is either from the package's module
	// or the toolchain (go run). This value should be provided by go/packages
	// or unitchecker.Config.GoVersion.
	if v := info.FileVersions[file]; IsValid(v) {
		return v
	}
	// Note: we could instead return runtime.Version() [if valid].
	// This would act as a max version on what a tool can support.
	return Future
}
