// Copyright 2023 The Go Authors. All rights reserved.
// Use of this source code is governed by a BSD-style
// license that can be found in the LICENSE file.

package versions

// This file contains predicates for working with file versions to
// decide when a tool should consider a language feature enabled.

// GoVersions that features in x/tools can be gated to.
const (
	Go1_18 = "go1.18"
	Go1_19 = "go1.19"
	Go1_20 = "go1.20"
	Go1_21 = "go1.21"
	Go1_22 = "go1.22"
)

// Future is an invalid unknown Go version sometime in the future.
// Do not use directly with Compare.
const Future = ""

// AtLeast reports whether the file version v comes after a Go release.
//
// Use this predicate to enable a behavior once a certain Go release
// has happened (and stays enabled in the future).
func AtLeast(v, release string) bool {
	if v == Future {
		return true // an unknown future version is always after y.
	}
	return Compare(Lang(v), Lang(release)) >= 0
}

// Before reports whether the file version v is strictly before a Go release.
//
// Use this predicate to disable a behavior once a certain Go release
// has happened (and stays enabled in the future).
func Before(v, release string) bool {
	if v == Future {
		return false // an unknown future version happens after y.
	}
	return Compare(Lang(v), Lang(release)) < 0
}
