// Copyright 2023 The Go Authors. All rights reserved.
// Use of this source code is governed by a BSD-style
// license that can be found in the LICENSE file.

package versions

import (
	"strings"
)

// Note: If we use build tags to use go/versions when go >=1.22,
// we run into go.dev/issue/53737. Under some operations users would see an
// import of "go/versions" even if they would not compile the file.
// For example, during `go get -u ./...` (go.dev/issue/64490) we do not try to include
// For this reason, this library just a clone of go/versions for the moment.

// Lang returns the Go language version for version x.
// If x is not a valid version, Lang returns the empty string.
// For example:
//
//	Lang("go1.21rc2") = "go1.21"
//	Lang("go1.21.2") = "go1.21"
//	Lang("go1.21") = "go1.21"
//	Lang("go1") = "go1"
//	Lang("bad") = ""
//	Lang("1.21") = ""
func Lang(x string) string {
	v := lang(stripGo(x))
	if v == "" {
		return ""
	}
	return x[:2+len(v)] // "go"+v without allocation
}

// Compare returns -1, 0, or +1 depending on whether
// x < y, x == y, or x > y, interpreted as Go versions.
// The versions x and y must begin with a "go" prefix: "go1.21" not "1.21".
// Invalid versions, including the empty string, compare less than
// valid versions and equal to each other.
// The language version "go1.21" compares less than the
// release candidate and eventual releases "go1.21rc1" and "go1.21.0".
// Custom toolchain suffixes are ignored during comparison:
// "go1.21.0" and "go1.21.0-bigcorp" are equal.
func Compare(x, y string) int { return compare(stripGo(x), stripGo(y)) }

// IsValid reports whether the version x is valid.
func IsValid(x string) bool { return isValid(stripGo(x)) }

// stripGo converts from a "go1.21" version to a "1.21" version.
// If v does not start with "go", stripGo returns the empty string (a known invalid version).
func stripGo(v string) string {
	v, _, _ = strings.Cut(v, "-") // strip -bigcorp suffix.
	if len(v) < 2 || v[:2] != "go" {
		return ""
	}
	return v[2:]
}
