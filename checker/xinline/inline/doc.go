// Copyright 2023 The Go Authors. All rights reserved.
// Use of this source code is governed by a BSD-style
// license that can be found in the LICENSE file.

/*
Package inline implements inlining of Go function calls.

The client provides information about the caller and callee,
including the source text, syntax tree, and type information, and
the inliner returns the modified source file for the caller, or an
error if the inlining operation is invalid (for example because the
function body refers to names that are inaccessible to the caller).

Although this interface demands more information from the client
than might seem necessary, it enables smoother integration with
existing batch and interactive tools that have their own ways of
managing the processes of reading, parsing, and type-checking
packages. In particular, this package does not assume that the
caller and callee belong to the same token.FileSet or
types.Importer realms.

There are many aspects to a function call. It is the only construct
that can simultaneously bind multiple variables of different
explicit types, with implicit assignment conversions. (Neither var
nor := declarations can do that.) It defines the scope of control
labels, of return statements, and of defer statements. Arguments
and results of function calls may be tuples even though tuples are
not first-class values in Go, and a tuple-valued call expression
may be "spread" across the argument list of a call or the operands
of a return statement. All these unique features mean that in the
general case, not everything that can be expressed by a function
call can be expressed without one.

So, in general, inlining consists of modifying a function or method
call expression f(a1, ..., an) so that the name of the function f
is replaced ("literalized") by a literal copy of the function
declaration, with free identifiers suitably modified to use the
locally appropriate identifiers or perhaps constant argument
values.

Inlining must not change the semantics of the call. Semantics
preservation is crucial for clients such as codebase maintenance
tools that automatically inline all calls to designated functions
on a large scale. Such tools must not introduce subtle behavior
changes. (Fully inlining a call is dynamically observable using
reflection over the call stack, but this exception to the rule is
explicitly allowed.)

In many cases it is possible to entirely replace ("reduce") the
call by a copy of the function's body in which parameters have been
replaced by arguments. The inliner supports a number of reduction
strategies, and we expect this set to grow. Nonetheless, sound
reduction is surprisingly tricky.

The inliner is in some ways like an optimizing compiler. A compiler
is considered correct if it doesn't change the meaning of the
program in translation from source language to target language. An
optimizing compiler exploits the particulars of the input to
generate better code, where "better" usually means more efficient.
When a case is found in which it emits suboptimal code, the
compiler is improved to recognize more cases, or more rules, and
more exceptions to rules; this process has no end. Inlining is
similar except that "better" code means tidier code. The baseline
translation (literalization) is correct, but there are endless
rules--and exceptions to rules--by which the output can be
improved.

The following section lists some of the challenges, and ways in
which they can be addressed.

  - All effects of the call argument expressions must be preserved,
    both in their number (they must not be eliminated or repeated),
    and in their order (both with respect to other arguments, and any
    effects in the callee function).

    This must be the case even if the corresponding parameters are
    never referenced, are referenced multiple times, referenced in
    a different order from the arguments, or referenced within a
    nested function that may be executed an arbitrary number of
    times.

    Currently, parameter replacement is not applied to arguments
    with effects, but with further analysis of the sequence of
    strict effects within the callee we could relax this constraint.

  - When not all parameters can be substituted by their arguments
    (e.g. due to possible effects), if the call appears in a
    statement context, the inliner may introduce a var declaration
    that declares the parameter variables (with the correct types)
    and assigns them to their corresponding argument values.
    The rest of the function body may then follow.
    For example, the call

    f(1, 2)

    to the function

    func f(x, y int32) { stmts }

    may be reduced to

    { var x, y int32 = 1, 2; stmts }.

    There are many reasons why this is not always possible. For
    example, true parameters are statically resolved in the same
    scope, and are dynamically assigned their arguments in
    parallel; but each spec in a var declaration is statically
    resolved in sequence and dynamically executed in sequence, so
    earlier parameters may shadow references in later ones.

  - Even an argument expression as simple as ptr.x may not be
    referentially transparent, because another argument may have the
    effect of changing the value of ptr.

    This constraint could be relaxed by some kind of alias or
    escape analysis that proves that ptr cannot be mutated during
    the call.

  - Although constants are referentially transparent, as a matter of
    style we do not wish to duplicate literals that are referenced
    multiple times in the body because this undoes proper factoring.
    Also, string literals may be arbitrarily large.

  - If the function body consists of statements other than just
    "return expr", in some contexts it may be syntactically
    impossible to reduce the call. Consider:

    if x := f(); cond { ... }

    Go has no equivalent to Lisp's progn or Rust's blocks,
    nor ML's let expressions (let param = arg in body);
    its closest equivalent is func(param){body}(arg).
    Reduction strategies must therefore consider the syntactic
    context of the call.

    In such situations we could work harder to extract a statement
    context for the call, by transforming it to:

    { x := f(); if cond { ... } }

  - Similarly, without the equivalent of Rust-style blocks and
    first-class tuples, there is no general way to reduce a call
    to a function such as

    func(params)(args)(results) { stmts; return expr }

    to an expression such as

    { var params = args; stmts; expr }

    or even a statement such as

    results = { var params = args; stmts; expr }

    Consequently the declaration and scope of the result variables,
    and the assignment and control-flow implications of the return
    statement, must be dealt with by cases.

  - A standalone call statement that calls a function whose body is
    "return expr" cannot be simply replaced by the body expression
    if it is not itself a call or channel receive expression; it is
    necessary to explicitly discard the result using "_ = expr".

    Similarly, if the body is a call expression, only calls to some
    built-in functions with no result (such as copy or panic) are
    permitted as statements, whereas others (such as append) return
    a result that must be used, even if just by discarding.

  - If a parameter or result variable is updated by an assignment
    within the function body, it cannot always be safely replaced
    by a variable in the caller. For example, given

    func f(a int) int { a++; return a }

    The call y = f(x) cannot be replaced by { x++; y = x } because
    this would change the value of the caller's variable x.
    Only if the caller is finished with x is this safe.

    A similar argument applies to parameter or result variables
    that escape: by eliminating a variable, inlining would change
    the identity of the variable that escapes.

  - If the function body uses 'defer' and the inlined call is not a
    tail-call, inlining may delay the deferred effects.

  - Because the scope of a control label is the entire function, a
    call cannot be reduced if the caller and callee have intersecting
    sets of control labels. (It is possible to α-rename any
    conflicting ones, but our colleagues building C++ refactoring
    tools report that, when tools must choose new identifiers, they
    generally do a poor job.)

  - Given

    func f() uint8 { return 0 }

    var x any = f()

    reducing the call to var x any = 0 is unsound because it
    discards the implicit conversion to uint8. We may need to make
    each argument-to-parameter conversion explicit if the types
    differ. Assignments to variadic parameters may need to
    explicitly construct a slice.

    An analogous problem applies to the implicit assignments in
    return statements:

    func g() any { return f() }

    Replacing the call f() with 0 would silently lose a
    conversion to uint8 and change the behavior of the program.

  - When inlining a call f(1, x, g()) where those parameters are
    unreferenced, we should be able to avoid evaluating 1 and x
    since they are pure and thus have no effect. But x may be the
    last reference to a local variable in the caller, so removing
    it would cause a compilation error. Parameter substitution must
    avoid making the caller's local variables unreferenced (or must
    be prepared to eliminate the declaration too---this is where an
    iterative framework for simplification would really help).

  - An expression such as s[i] may be valid if s and i are
    variables but invalid if either or both of them are constants.
    For example, a negative constant index s[-1] is always out of
    bounds, and even a non-negative constant index may be out of
    bounds depending on the particular string constant (e.g.
    "abc"[4]).

    So, if a parameter participates in any expression that is
    subject to additional compile-time checks when its operands are
    constant, it may be unsafe to substitute that parameter by a
    constant argument value (#62664).

More complex callee functions are inlinable with more elaborate and
invasive changes to the statements surrounding the call expression.

TODO(adonovan): future work:

  - Handle more of the above special cases by careful analysis,
    thoughtful factoring of the large design space, and thorough
    test coverage.

  - Compute precisely (not conservatively) when parameter
    substitution would remove the last reference to a caller local
    variable, and blank out the local instead of retreating from
    the substitution.

  - Afford the client more control such as a limit on the total
    increase in line count, or a refusal to inline using the
    general approach (replacing name by function literal). This
    could be achieved by returning metadata alongside the result
    and having the client conditionally discard the change.

  - Support inlining of generic functions, replacing type parameters
    by their instantiations.

  - Support inlining of calls to function literals ("closures").
    But note that the existing algorithm makes widespread assumptions
    that the callee is a package-level function or method.

  - Eliminate explicit conversions of "untyped" literals inserted
    conservatively when they are redundant. For example, the
    conversion int32(1) is redundant when this value is used only as a
    slice index; but it may be crucial if it is used in x := int32(1)
    as it changes the type of x, which may have further implications.
    The conversions may also be important to the falcon analysis.

  - Allow non-'go' build systems such as Bazel/Blaze a chance to
    decide whether an import is accessible using logic other than
    "/internal/" path segments. This could be achieved by returning
    the list of added import paths instead of a text diff.

  - Inlining a function from another module may change the
    effective version of the Go language spec that governs it. We
    should probably make the client responsible for rejecting
    attempts to inline from newer callees to older callers, since
    there's no way for this package to access module versions.

  - Use an alternative implementation of the import-organizing
    operation that doesn't require operating on a complete file
    (and reformatting). Then return the results in a higher-level
    form as a set of import additions and deletions plus a single
    diff that encloses the call expression. This interface could
    perhaps be implemented atop imports.Process by post-processing
    its result to obtain the abstract import changes and discarding
    its formatted output.
*/
package inline
