// Copyright 2023 The Go Authors. All rights reserved.
// Use of this source code is governed by a BSD-style
// license that can be found in the LICENSE file.

package inline

// This file defines various common helpers.

import (
	"go/ast"
	"go/constant"
	"go/token"
	"go/types"
	"reflect"
	"strings"

	"lncverif/xinline/typeparams"
)

func is[T any](x any) bool {
	_, ok := x.(T)
	return ok
}

// TODO(adonovan): use go1.21's slices.Index.
func index[T comparable](slice []T, x T) int {
	for i, elem := range slice {
		if elem == x {
			return i
		}
	}
	return -1
}

func btoi(b bool) int {
	if b {
		return 1
	} else {
		return 0
	}
}

func offsetOf(fset *token.FileSet, pos token.Pos) int {
	return fset.PositionFor(pos, false).Offset
}

// objectKind returns an object's kind (e.g. var, func, const, typename).
func objectKind(obj types.Object) string {
	return strings.TrimPrefix(strings.ToLower(reflect.TypeOf(obj).String()), "*types.")
}

// within reports whether pos is within the half-open interval [n.Pos, n.End).
func within(pos token.Pos, n ast.Node) bool {
	return n.Pos() <= pos && pos < n.End()
}

// trivialConversion reports whether it is safe to omit the implicit
// value-to-variable conversion that occurs in argument passing or
// result return. The only case currently allowed is converting from
// untyped constant to its default type (e.g. 0 to int).
//
// The reason for this check is that converting from A to B to C may
// yield a different result than converting A directly to C: consider
// 0 to int32 to any.
//
// trivialConversion under-approximates trivial conversions, as unfortunately
// go/types does not record the type of an expression *before* it is implicitly
// converted, and therefore it cannot distinguish typed constant
// expressions from untyped constant expressions. For example, in the
// expression `c + 2`, where c is a uint32 constant, trivialConversion does not
// detect that the default type of this expression is actually uint32, not untyped
// int.
//
// We could, of course, do better here by reverse engineering some of go/types'
// constant handling. That may or may not be worthwhile.
//
// Example: in func f() int32 { return 0 },
// the type recorded for 0 is int32, not untyped int;
// although it is Identical to the result var,
// the conversion is non-trivial.
func trivialConversion(fromValue constant.Value, from, to types.Type) bool {
	if fromValue != nil {
		var defaultType types.Type
		switch fromValue.Kind() {
		case constant.Bool:
			defaultType = types.Typ[types.Bool]
		case constant.String:
			defaultType = types.Typ[types.String]
		case constant.Int:
			defaultType = types.Typ[types.Int]
		case constant.Float:
			defaultType = types.Typ[types.Float64]
		case constant.Complex:
			defaultType = types.Typ[types.Complex128]
		default:
			return false
		}
		return types.Identical(defaultType, to)
	}
	return types.Identical(from, to)
}

func checkInfoFields(info *types.Info) {
	assert(info.Defs != nil, "types.Info.Defs is nil")
	assert(info.Implicits != nil, "types.Info.Implicits is nil")
	assert(info.Scopes != nil, "types.Info.Scopes is nil")
	assert(info.Selections != nil, "types.Info.Selections is nil")
	assert(info.Types != nil, "types.Info.Types is nil")
	assert(info.Uses != nil, "types.Info.Uses is nil")
}

func funcHasTypeParams(decl *ast.FuncDecl) bool {
	// generic function?
	if decl.Type.TypeParams != nil {
		return true
	}
	// method on generic type?
	if decl.Recv != nil {
		t := decl.Recv.List[0].Type
		if u, ok := t.(*ast.StarExpr); ok {
			t = u.X
		}
		return is[*ast.IndexExpr](t) || is[*ast.IndexListExpr](t)
	}
	return false
}

// intersects reports whether the maps' key sets intersect.
func intersects[K comparable, T1, T2 any](x map[K]T1, y map[K]T2) bool {
	if len(x) > len(y) {
		return intersects(y, x)
	}
	for k := range x {
		if _, ok := y[k]; ok {
			return true
		}
	}
	return false
}

// convert returns syntax for the conversion T(x).
func convert(T, x ast.Expr) *ast.CallExpr {
	// The formatter generally adds parens as needed,
	// but before go1.22 it had a bug (#63362) for
	// channel types that requires this workaround.
	if ch, ok := T.(*ast.ChanType); ok && ch.Dir == ast.RECV {
		T = &ast.ParenExpr{X: T}
	}
	return &ast.CallExpr{
		Fun:  T,
		Args: []ast.Expr{x},
	}
}

// isPointer reports whether t's core type is a pointer.
func isPointer(t types.Type) bool {
	return is[*types.Pointer](typeparams.CoreType(t))
}

// indirectSelection is like seln.Indirect() without bug #8353.
func indirectSelection(seln *types.Selection) bool {
	// Work around bug #8353 in Selection.Indirect when Kind=MethodVal.
	if seln.Kind() == types.MethodVal {
		tArg, indirect := effectiveReceiver(seln)
		if indirect {
			return true
		}

		tParam := seln.Obj().Type().Underlying().(*types.Signature).Recv().Type()
		return isPointer(tArg) && !isPointer(tParam) // implicit *
	}

	return seln.Indirect()
}

// effectiveReceiver returns the effective type of the method
// receiver after all implicit field selections (but not implicit * or
// & operations) have been applied.
//
// The boolean indicates whether any implicit field selection was indirect.
func effectiveReceiver(seln *types.Selection) (types.Type, bool) {
	assert(seln.Kind() == types.MethodVal, "not MethodVal")
	t := seln.Recv()
	indices := seln.Index()
	indirect := false
	for _, index := range indices[:len(indices)-1] {
		if isPointer(t) {
			indirect = true
			t = typeparams.MustDeref(t)
		}
		t = typeparams.CoreType(t).(*types.Struct).Field(index).Type()
	}
	return t, indirect
}
