// Copyright 2023 The Go Authors. All rights reserved.
// Use of this source code is governed by a BSD-style
// license that can be found in the LICENSE file.

package inline

// This file defines the analysis of the callee function.

import (
	"bytes"
	"encoding/gob"
	"fmt"
	"go/ast"
	"go/parser"
	"go/token"
	"go/types"
	"strings"

	"golang.org/x/tools/go/types/typeutil"
	"lncverif/xinline/typeparams"
	"lncverif/xinline/typesinternal"
)

// A Callee holds information about an inlinable function. Gob-serializable.
type Callee struct {
	impl gobCallee
}

func (callee *Callee) String() string { return callee.impl.Name }

type gobCallee struct {
	Content []byte // file content, compacted to a single func decl

	// results of type analysis (does not reach go/types data structures)
	PkgPath          string                 // package path of declaring package
	Name             string                 // user-friendly name for error messages
	Unexported       []string               // names of free objects that are unexported
	FreeRefs         []freeRef              // locations of references to free objects
	FreeObjs         []object               // descriptions of free objects
	ValidForCallStmt bool                   // function body is "return expr" where expr is f() or <-ch
	NumResults       int                    // number of results (according to type, not ast.FieldList)
	Params           []*paramInfo           // information about parameters (incl. receiver)
	Results          []*paramInfo           // information about result variables
	Effects          []int                  // order in which parameters are evaluated (see calleefx)
	HasDefer         bool                   // uses defer
	HasBareReturn    bool                   // uses bare return in non-void function
	Returns          [][]returnOperandFlags // metadata about result expressions for each return
	Labels           []string               // names of all control labels
	Falcon           falconResult           // falcon constraint system
}

// returnOperandFlags records metadata about a single result expression in a return
// statement.
type returnOperandFlags int

const (
	nonTrivialResult returnOperandFlags = 1 << iota // return operand has non-trivial conversion to result type
	untypedNilResult                                // return operand is nil literal
)

// A freeRef records a reference to a free object. Gob-serializable.
// (This means free relative to the FuncDecl as a whole, i.e. excluding parameters.)
type freeRef struct {
	Offset int // byte offset of the reference relative to the FuncDecl
	Object int // index into Callee.freeObjs
}

// An object abstracts a free types.Object referenced by the callee. Gob-serializable.
type object struct {
	Name    string // Object.Name()
	Kind    string // one of {var,func,const,type,pkgname,nil,builtin}
	PkgPath string // path of object's package (or imported package if kind="pkgname")
	PkgName string // name of object's package (or imported package if kind="pkgname")
	// TODO(rfindley): should we also track LocalPkgName here? Do we want to
	// preserve the local package name?
	ValidPos bool      // Object.Pos().IsValid()
	Shadow   shadowMap // shadowing info for the object's refs
}

// AnalyzeCallee analyzes a function that is a candidate for inlining
// and returns a Callee that describes it. The Callee object, which is
// serializable, can be passed to one or more subsequent calls to
// Inline, each with a different Caller.
//
// This design allows separate analysis of callers and callees in the
// golang.org/x/tools/go/analysis framework: the inlining information
// about a callee can be recorded as a "fact".
//
// The content should be the actual input to the compiler, not the
// apparent source file according to any //line directives that
// may be present within it.
func AnalyzeCallee(logf func(string, ...any), fset *token.FileSet, pkg *types.Package, info *types.Info, decl *ast.FuncDecl, content []byte) (*Callee, error) {
	checkInfoFields(info)

	// The client is expected to have determined that the callee
	// is a function with a declaration (not a built-in or var).
	fn := info.Defs[decl.Name].(*types.Func)
	sig := fn.Type().(*types.Signature)

	logf("analyzeCallee %v @ %v", fn, fset.PositionFor(decl.Pos(), false))

	// Create user-friendly name ("pkg.Func" or "(pkg.T).Method")
	var name string
	if sig.Recv() == nil {
		name = fmt.Sprintf("%s.%s", fn.Pkg().Name(), fn.Name())
	} else {
		name = fmt.Sprintf("(%s).%s", types.TypeString(sig.Recv().Type(), (*types.Package).Name), fn.Name())
	}

	if decl.Body == nil {
		return nil, fmt.Errorf("cannot inline function %s as it has no body", name)
	}

	// TODO(adonovan): support inlining of instantiated generic
	// functions by replacing each occurrence of a type parameter
	// T by its instantiating type argument (e.g. int). We'll need
	// to wrap the instantiating type in parens when it's not an
	// ident or qualified ident to prevent "if x == struct{}"
	// parsing ambiguity, or "T(x)" where T = "*int" or "func()"
	// from misparsing.
	if funcHasTypeParams(decl) {
		return nil, fmt.Errorf("cannot inline generic function %s: type parameters are not yet supported", name)
	}

	// Record the location of all free references in the FuncDecl.
	// (Parameters are not free by this definition.)
	var (
		fieldObjs    = fieldObjs(sig)
		freeObjIndex = make(map[types.Object]int)
		freeObjs     []object
		freeRefs     []freeRef // free refs that may need renaming
		unexported   []string  // free refs to unexported objects, for later error checks
	)
	var f func(n ast.Node) bool
	visit := func(n ast.Node) { ast.Inspect(n, f) }
	var stack []ast.Node
	stack = append(stack, decl.Type) // for scope of function itself
	f = func(n ast.Node) bool {
		if n != nil {
			stack = append(stack, n) // push
		} else {
			stack = stack[:len(stack)-1] // pop
		}
		switch n := n.(type) {
		case *ast.SelectorExpr:
			// Check selections of free fields/methods.
			if sel, ok := info.Selections[n]; ok &&
				!within(sel.Obj().Pos(), decl) &&
				!n.Sel.IsExported() {
				sym := fmt.Sprintf("(%s).%s", info.TypeOf(n.X), n.Sel.Name)
				unexported = append(unexported, sym)
			}

			// Don't recur into SelectorExpr.Sel.
			visit(n.X)
			return false

		case *ast.CompositeLit:
			// Check for struct literals that refer to unexported fields,
			// whether keyed or unkeyed. (Logic assumes well-typedness.)
			litType := typeparams.Deref(info.TypeOf(n))
			if s, ok := typeparams.CoreType(litType).(*types.Struct); ok {
				if n.Type != nil {
					visit(n.Type)
				}
				for i, elt := range n.Elts {
					var field *types.Var
					var value ast.Expr
					if kv, ok := elt.(*ast.KeyValueExpr); ok {
						field = info.Uses[kv.Key.(*ast.Ident)].(*types.Var)
						value = kv.Value
					} else {
						field = s.Field(i)
						value = elt
					}
					if !within(field.Pos(), decl) && !field.Exported() {
						sym := fmt.Sprintf("(%s).%s", litType, field.Name())
						unexported = append(unexported, sym)
					}

					// Don't recur into KeyValueExpr.Key.
					visit(value)
				}
				return false
			}

		case *ast.Ident:
			if obj, ok := info.Uses[n]; ok {
				// Methods and fields are handled by SelectorExpr and CompositeLit.
				if isField(obj) || isMethod(obj) {
					panic(obj)
				}
				// Inv: id is a lexical reference.

				// A reference to an unexported package-level declaration
				// cannot be inlined into another package.
				if !n.IsExported() &&
					obj.Pkg() != nil && obj.Parent() == obj.Pkg().Scope() {
					unexported = append(unexported, n.Name)
				}

				// Record free reference (incl. self-reference).
				if obj == fn || !within(obj.Pos(), decl) {
					objidx, ok := freeObjIndex[obj]
					if !ok {
						objidx = len(freeObjIndex)
						var pkgPath, pkgName string
						if pn, ok := obj.(*types.PkgName); ok {
							pkgPath = pn.Imported().Path()
							pkgName = pn.Imported().Name()
						} else if obj.Pkg() != nil {
							pkgPath = obj.Pkg().Path()
							pkgName = obj.Pkg().Name()
						}
						freeObjs = append(freeObjs, object{
							Name:     obj.Name(),
							Kind:     objectKind(obj),
							PkgName:  pkgName,
							PkgPath:  pkgPath,
							ValidPos: obj.Pos().IsValid(),
						})
						freeObjIndex[obj] = objidx
					}

					freeObjs[objidx].Shadow = freeObjs[objidx].Shadow.add(info, fieldObjs, obj.Name(), stack)

					freeRefs = append(freeRefs, freeRef{
						Offset: int(n.Pos() - decl.Pos()),
						Object: objidx,
					})
				}
			}
		}
		return true
	}
	visit(decl)

	// Analyze callee body for "return expr" form,
	// where expr is f() or <-ch. These forms are
	// safe to inline as a standalone statement.
	validForCallStmt := false
	if len(decl.Body.List) != 1 {
		// not just a return statement
	} else if ret, ok := decl.Body.List[0].(*ast.ReturnStmt); ok && len(ret.Results) == 1 {
		validForCallStmt = func() bool {
			switch expr := ast.Unparen(ret.Results[0]).(type) {
			case *ast.CallExpr: // f(x)
				callee := typeutil.Callee(info, expr)
				if callee == nil {
					return false // conversion T(x)
				}

				// The only non-void built-in functions that may be
				// called as a statement are copy and recover
				// (though arguably a call to recover should never
				// be inlined as that changes its behavior).
				if builtin, ok := callee.(*types.Builtin); ok {
					return builtin.Name() == "copy" ||
						builtin.Name() == "recover"
				}

				return true // ordinary call f()

			case *ast.UnaryExpr: // <-x
				return expr.Op == token.ARROW // channel receive <-ch
			}

			// No other expressions are valid statements.
			return false
		}()
	}

	// Record information about control flow in the callee
	// (but not any nested functions).
	var (
		hasDefer      = false
		hasBareReturn = false
		returnInfo    [][]returnOperandFlags
		labels        []string
	)
	ast.Inspect(decl.Body, func(n ast.Node) bool {
		switch n := n.(type) {
		case *ast.FuncLit:
			return false // prune traversal
		case *ast.DeferStmt:
			hasDefer = true
		case *ast.LabeledStmt:
			labels = append(labels, n.Label.Name)
		case *ast.ReturnStmt:

			// Are implicit assignment conversions
			// to result variables all trivial?
			var resultInfo []returnOperandFlags
			if len(n.Results) > 0 {
				argInfo := func(i int) (ast.Expr, types.Type) {
					expr := n.Results[i]
					return expr, info.TypeOf(expr)
				}
				if len(n.Results) == 1 && sig.Results().Len() > 1 {
					// Spread return: return f() where f.Results > 1.
					tuple := info.TypeOf(n.Results[0]).(*types.Tuple)
					argInfo = func(i int) (ast.Expr, types.Type) {
						return nil, tuple.At(i).Type()
					}
				}
				for i := 0; i < sig.Results().Len(); i++ {
					expr, typ := argInfo(i)
					var flags returnOperandFlags
					if typ == types.Typ[types.UntypedNil] { // untyped nil is preserved by go/types
						flags |= untypedNilResult
					}
					if !trivialConversion(info.Types[expr].Value, typ, sig.Results().At(i).Type()) {
						flags |= nonTrivialResult
					}
					resultInfo = append(resultInfo, flags)
				}
			} else if sig.Results().Len() > 0 {
				hasBareReturn = true
			}
			returnInfo = append(returnInfo, resultInfo)
		}
		return true
	})

	// Reject attempts to inline cgo-generated functions.
	for _, obj := range freeObjs {
		// There are others (iconst fconst sconst fpvar macro)
		// but this is probably sufficient.
		if strings.HasPrefix(obj.Name, "_Cfunc_") ||
			strings.HasPrefix(obj.Name, "_Ctype_") ||
			strings.HasPrefix(obj.Name, "_Cvar_") {
			return nil, fmt.Errorf("cannot inline cgo-generated functions")
		}
	}

	// Compact content to just the FuncDecl.
	//
	// As a space optimization, we don't retain the complete
	// callee file content; all we need is "package _; func f() { ... }".
	// This reduces the size of analysis facts.
	//
	// Offsets in the callee information are "relocatable"
	// since they are all relative to the FuncDecl.

	content = append([]byte("package _\n"),
		content[offsetOf(fset, decl.Pos()):offsetOf(fset, decl.End())]...)
	// Sanity check: re-parse the compacted content.
	if _, _, err := parseCompact(content); err != nil {
		return nil, err
	}

	params, results, effects, falcon := analyzeParams(logf, fset, info, decl)
	return &Callee{gobCallee{
		Content:          content,
		PkgPath:          pkg.Path(),
		Name:             name,
		Unexported:       unexported,
		FreeObjs:         freeObjs,
		FreeRefs:         freeRefs,
		ValidForCallStmt: validForCallStmt,
		NumResults:       sig.Results().Len(),
		Params:           params,
		Results:          results,
		Effects:          effects,
		HasDefer:         hasDefer,
		HasBareReturn:    hasBareReturn,
		Returns:          returnInfo,
		Labels:           labels,
		Falcon:           falcon,
	}}, nil
}

// parseCompact parses a Go source file of the form "package _\n func f() { ... }"
// and returns the sole function declaration.
func parseCompact(content []byte) (*token.FileSet, *ast.FuncDecl, error) {
	fset := token.NewFileSet()
	const mode = parser.ParseComments | parser.SkipObjectResolution | parser.AllErrors
	f, err := parser.ParseFile(fset, "callee.go", content, mode)
	if err != nil {
		return nil, nil, fmt.Errorf("internal error: cannot compact file: %v", err)
	}
	return fset, f.Decls[0].(*ast.FuncDecl), nil
}

// A paramInfo records information about a callee receiver, parameter, or result variable.
type paramInfo struct {
	Name        string    // parameter name (may be blank, or even "")
	Index       int       // index within signature
	IsResult    bool      // false for receiver or parameter, true for result variable
	IsInterface bool      // parameter has a (non-type parameter) interface type
	Assigned    bool      // parameter appears on left side of an assignment statement
	Escapes     bool      // parameter has its address taken
	Refs        []refInfo // information about references to parameter within body
	Shadow      shadowMap // shadowing info for the above refs; see [shadowMap]
	FalconType  string    // name of this parameter's type (if basic) in the falcon system
}

type refInfo struct {
	Offset           int  // FuncDecl-relative byte offset of parameter ref within body
	Assignable       bool // ref appears in context of assignment to known type
	IfaceAssignment  bool // ref is being assigned to an interface
	AffectsInference bool // ref type may affect type inference
	// IsSelectionOperand indicates whether the parameter reference is the
	// operand of a selection (param.f). If so, and param's argument is itself
	// a receiver parameter (a common case), we don't need to desugar (&v or *ptr)
	// the selection: if param.Method is a valid selection, then so is param.fieldOrMethod.
	IsSelectionOperand bool
}

// analyzeParams computes information about parameters of function fn,
// including a simple "address taken" escape analysis.
//
// It returns two new arrays, one of the receiver and parameters, and
// the other of the result variables of function fn.
//
// The input must be well-typed.
func analyzeParams(logf func(string, ...any), fset *token.FileSet, info *types.Info, decl *ast.FuncDecl) (params, results []*paramInfo, effects []int, _ falconResult) {
	fnobj, ok := info.Defs[decl.Name]
	if !ok {
		panic(fmt.Sprintf("%s: no func object for %q",
			fset.PositionFor(decl.Name.Pos(), false), decl.Name)) // ill-typed?
	}
	sig := fnobj.Type().(*types.Signature)

	paramInfos := make(map[*types.Var]*paramInfo)
	{
		newParamInfo := func(param *types.Var, isResult bool) *paramInfo {
			info := &paramInfo{
				Name:        param.Name(),
				IsResult:    isResult,
				Index:       len(paramInfos),
				IsInterface: isNonTypeParamInterface(param.Type()),
			}
			paramInfos[param] = info
			return info
		}
		if sig.Recv() != nil {
			params = append(params, newParamInfo(sig.Recv(), false))
		}
		for i := 0; i < sig.Params().Len(); i++ {
			params = append(params, newParamInfo(sig.Params().At(i), false))
		}
		for i := 0; i < sig.Results().Len(); i++ {
			results = append(results, newParamInfo(sig.Results().At(i), true))
		}
	}

	// Search function body for operations &x, x.f(), and x = y
	// where x is a parameter, and record it.
	escape(info, decl, func(v *types.Var, escapes bool) {
		if info := paramInfos[v]; info != nil {
			if escapes {
				info.Escapes = true
			} else {
				info.Assigned = true
			}
		}
	})

	// Record locations of all references to parameters.
	// And record the set of intervening definitions for each parameter.
	//
	// TODO(adonovan): combine this traversal with the one that computes
	// FreeRefs. The tricky part is that calleefx needs this one first.
	fieldObjs := fieldObjs(sig)
	var stack []ast.Node
	stack = append(stack, decl.Type) // for scope of function itself
	ast.Inspect(decl.Body, func(n ast.Node) bool {
		if n != nil {
			stack = append(stack, n) // push
		} else {
			stack = stack[:len(stack)-1] // pop
		}

		if id, ok := n.(*ast.Ident); ok {
			if v, ok := info.Uses[id].(*types.Var); ok {
				if pinfo, ok := paramInfos[v]; ok {
					// Record ref information, and any intervening (shadowing) names.
					//
					// If the parameter v has an interface type, and the reference id
					// appears in a context where assignability rules apply, there may be
					// an implicit interface-to-interface widening. In that case it is
					// not necessary to insert an explicit conversion from the argument
					// to the parameter's type.
					//
					// Contrapositively, if param is not an interface type, then the
					// assignment may lose type information, for example in the case that
					// the substituted expression is an untyped constant or unnamed type.
					assignable, ifaceAssign, affectsInference := analyzeAssignment(info, stack)
					ref := refInfo{
						Offset:             int(n.Pos() - decl.Pos()),
						Assignable:         assignable,
						IfaceAssignment:    ifaceAssign,
						AffectsInference:   affectsInference,
						IsSelectionOperand: isSelectionOperand(stack),
					}
					pinfo.Refs = append(pinfo.Refs, ref)
					pinfo.Shadow = pinfo.Shadow.add(info, fieldObjs, pinfo.Name, stack)
				}
			}
		}
		return true
	})

	// Compute subset and order of parameters that are strictly evaluated.
	// (Depends on Refs computed above.)
	effects = calleefx(info, decl.Body, paramInfos)
	logf("effects list = %v", effects)

	falcon := falcon(logf, fset, paramInfos, info, decl)

	return params, results, effects, falcon
}

// -- callee helpers --

// analyzeAssignment looks at the the given stack, and analyzes certain
// attributes of the innermost expression.
//
// In all cases we 'fail closed' when we cannot detect (or for simplicity
// choose not to detect) the condition in question, meaning we err on the side
// of the more restrictive rule. This is noted for each result below.
//
//   - assignable reports whether the expression is used in a position where
//     assignability rules apply, such as in an actual assignment, as call
//     argument, or in a send to a channel. Defaults to 'false'. If assignable
//     is false, the other two results are irrelevant.
//   - ifaceAssign reports whether that assignment is to an interface type.
//     This is important as we want to preserve the concrete type in that
//     assignment. Defaults to 'true'. Notably, if the assigned type is a type
//     parameter, we assume that it could have interface type.
//   - affectsInference is (somewhat vaguely) defined as whether or not the
//     type of the operand may affect the type of the surrounding syntax,
//     through type inference. It is infeasible to completely reverse engineer
//     type inference, so we over approximate: if the expression is an argument
//     to a call to a generic function (but not method!) that uses type
//     parameters, assume that unification of that argument may affect the
//     inferred types.
func analyzeAssignment(info *types.Info, stack []ast.Node) (assignable, ifaceAssign, affectsInference bool) {
	remaining, parent, expr := exprContext(stack)
	if parent == nil {
		return false, false, false
	}

	// TODO(golang/go#70638): simplify when types.Info records implicit conversions.

	// Types do not need to match for assignment to a variable.
	if assign, ok := parent.(*ast.AssignStmt); ok {
		for i, v := range assign.Rhs {
			if v == expr {
				if i >= len(assign.Lhs) {
					return false, false, false // ill typed
				}
				// Check to see if the assignment is to an interface type.
				if i < len(assign.Lhs) {
					// TODO: We could handle spread calls here, but in current usage expr
					// is an ident.
					if id, _ := assign.Lhs[i].(*ast.Ident); id != nil && info.Defs[id] != nil {
						// Types must match for a defining identifier in a short variable
						// declaration.
						return false, false, false
					}
					// In all other cases, types should be known.
					typ := info.TypeOf(assign.Lhs[i])
					return true, typ == nil || types.IsInterface(typ), false
				}
				// Default:
				return assign.Tok == token.ASSIGN, true, false
			}
		}
	}

	// Types do not need to match for an initializer with known type.
	if spec, ok := parent.(*ast.ValueSpec); ok && spec.Type != nil {
		for _, v := range spec.Values {
			if v == expr {
				typ := info.TypeOf(spec.Type)
				return true, typ == nil || types.IsInterface(typ), false
			}
		}
	}

	// Types do not need to match for index expresions.
	if ix, ok := parent.(*ast.IndexExpr); ok {
		if ix.Index == expr {
			typ := info.TypeOf(ix.X)
			if typ == nil {
				return true, true, false
			}
			m, _ := typeparams.CoreType(typ).(*types.Map)
			return true, m == nil || types.IsInterface(m.Key()), false
		}
	}

	// Types do not need to match for composite literal keys, values, or
	// fields.
	if kv, ok := parent.(*ast.KeyValueExpr); ok {
		var under types.Type
		if len(remaining) > 0 {
			if complit, ok := remaining[len(remaining)-1].(*ast.CompositeLit); ok {
				if typ := info.TypeOf(complit); typ != nil {
					// Unpointer to allow for pointers to slices or arrays, which are
					// permitted as the types of nested composite literals without a type
					// name.
					under = typesinternal.Unpointer(typeparams.CoreType(typ))
				}
			}
		}
		if kv.Key == expr { // M{expr: ...}: assign to map key
			m, _ := under.(*types.Map)
			return true, m == nil || types.IsInterface(m.Key()), false
		}
		if kv.Value == expr {
			switch under := under.(type) {
			case interface{ Elem() types.Type }: // T{...: expr}: assign to map/array/slice element
				return true, types.IsInterface(under.Elem()), false
			case *types.Struct: // Struct{k: expr}
				if id, _ := kv.Key.(*ast.Ident); id != nil {
					for fi := 0; fi < under.NumFields(); fi++ {
						field := under.Field(fi)
						if info.Uses[id] == field {
							return true, types.IsInterface(field.Type()), false
						}
					}
				}
			default:
				return true, true, false
			}
		}
	}
	if lit, ok := parent.(*ast.CompositeLit); ok {
		for i, v := range lit.Elts {
			if v == expr {
				typ := info.TypeOf(lit)
				if typ == nil {
					return true, true, false
				}
				// As in the KeyValueExpr case above, unpointer to handle pointers to
				// array/slice literals.
				under := typesinternal.Unpointer(typeparams.CoreType(typ))
				switch under := under.(type) {
				case interface{ Elem() types.Type }: // T{expr}: assign to map/array/slice element
					return true, types.IsInterface(under.Elem()), false
				case *types.Struct: // Struct{expr}: assign to unkeyed struct field
					if i < under.NumFields() {
						return true, types.IsInterface(under.Field(i).Type()), false
					}
				}
				return true, true, false
			}
		}
	}

	// Types do not need to match for values sent to a channel.
	if send, ok := parent.(*ast.SendStmt); ok {
		if send.Value == expr {
			typ := info.TypeOf(send.Chan)
			if typ == nil {
				return true, true, false
			}
			ch, _ := typeparams.CoreType(typ).(*types.Chan)
			return true, ch == nil || types.IsInterface(ch.Elem()), false
		}
	}

	// Types do not need to match for an argument to a call, unless the
	// corresponding parameter has type parameters, as in that case the
	// argument type may affect inference.
	if call, ok := parent.(*ast.CallExpr); ok {
		if _, ok := isConversion(info, call); ok {
			return false, false, false // redundant conversions are handled at the call site
		}
		// Ordinary call. Could be a call of a func, builtin, or function value.
		for i, arg := range call.Args {
			if arg == expr {
				typ := info.TypeOf(call.Fun)
				if typ == nil {
					return true, true, false
				}
				sig, _ := typeparams.CoreType(typ).(*types.Signature)
				if sig != nil {
					// Find the relevant parameter type, accounting for variadics.
					paramType := paramTypeAtIndex(sig, call, i)
					ifaceAssign := paramType == nil || types.IsInterface(paramType)
					affectsInference := false
					if fn := typeutil.StaticCallee(info, call); fn != nil {
						if sig2 := fn.Type().(*types.Signature); sig2.Recv() == nil {
							originParamType := paramTypeAtIndex(sig2, call, i)
							affectsInference = originParamType == nil || new(typeparams.Free).Has(originParamType)
						}
					}
					return true, ifaceAssign, affectsInference
				}
			}
		}
	}

	return false, false, false
}

// paramTypeAtIndex returns the effective parameter type at the given argument
// index in call, if valid.
func paramTypeAtIndex(sig *types.Signature, call *ast.CallExpr, index int) types.Type {
	if plen := sig.Params().Len(); sig.Variadic() && index >= plen-1 && !call.Ellipsis.IsValid() {
		if s, ok := sig.Params().At(plen - 1).Type().(*types.Slice); ok {
			return s.Elem()
		}
	} else if index < plen {
		return sig.Params().At(index).Type()
	}
	return nil // ill typed
}

// exprContext returns the innermost parent->child expression nodes for the
// given outer-to-inner stack, after stripping parentheses, along with the
// remaining stack up to the parent node.
//
// If no such context exists, returns (nil, nil).
func exprContext(stack []ast.Node) (remaining []ast.Node, parent ast.Node, expr ast.Expr) {
	expr, _ = stack[len(stack)-1].(ast.Expr)
	if expr == nil {
		return nil, nil, nil
	}
	i := len(stack) - 2
	for ; i >= 0; i-- {
		if pexpr, ok := stack[i].(*ast.ParenExpr); ok {
			expr = pexpr
		} else {
			parent = stack[i]
			break
		}
	}
	if parent == nil {
		return nil, nil, nil
	}
	// inv: i is the index of parent in the stack.
	return stack[:i], parent, expr
}

// isSelectionOperand reports whether the innermost node of stack is operand
// (x) of a selection x.f.
func isSelectionOperand(stack []ast.Node) bool {
	_, parent, expr := exprContext(stack)
	if parent == nil {
		return false
	}
	sel, ok := parent.(*ast.SelectorExpr)
	return ok && sel.X == expr
}

// A shadowMap records information about shadowing at any of the parameter's
// references within the callee decl.
//
// For each name shadowed at a reference to the parameter within the callee
// body, shadow map records the 1-based index of the callee decl parameter
// causing the shadowing, or -1, if the shadowing is not due to a callee decl.
// A value of zero (or missing) indicates no shadowing. By convention,
// self-shadowing is excluded from the map.
//
// For example, in the following callee
//
//	func f(a, b int) int {
//		c := 2 + b
//		return a + c
//	}
//
// the shadow map of a is {b: 2, c: -1}, because b is shadowed by the 2nd
// parameter. The shadow map of b is {a: 1}, because c is not shadowed at the
// use of b.
type shadowMap map[string]int

// add returns the [shadowMap] augmented by the set of names
// locally shadowed at the location of the reference in the callee
// (identified by the stack). The name of the reference itself is
// excluded.
//
// These shadowed names may not be used in a replacement expression
// for the reference.
func (s shadowMap) add(info *types.Info, paramIndexes map[types.Object]int, exclude string, stack []ast.Node) shadowMap {
	for _, n := range stack {
		if scope := scopeFor(info, n); scope != nil {
			for _, name := range scope.Names() {
				if name != exclude {
					if s == nil {
						s = make(shadowMap)
					}
					obj := scope.Lookup(name)
					if idx, ok := paramIndexes[obj]; ok {
						s[name] = idx + 1
					} else {
						s[name] = -1
					}
				}
			}
		}
	}
	return s
}

// fieldObjs returns a map of each types.Object defined by the given signature
// to its index in the parameter list. Parameters with missing or blank name
// are skipped.
func fieldObjs(sig *types.Signature) map[types.Object]int {
	m := make(map[types.Object]int)
	for i := range sig.Params().Len() {
		if p := sig.Params().At(i); p.Name() != "" && p.Name() != "_" {
			m[p] = i
		}
	}
	return m
}

func isField(obj types.Object) bool {
	if v, ok := obj.(*types.Var); ok && v.IsField() {
		return true
	}
	return false
}

func isMethod(obj types.Object) bool {
	if f, ok := obj.(*types.Func); ok && f.Type().(*types.Signature).Recv() != nil {
		return true
	}
	return false
}

// -- serialization --

var (
	_ gob.GobEncoder = (*Callee)(nil)
	_ gob.GobDecoder = (*Callee)(nil)
)

func (callee *Callee) GobEncode() ([]byte, error) {
	var out bytes.Buffer
	if err := gob.NewEncoder(&out).Encode(callee.impl); err != nil {
		return nil, err
	}
	return out.Bytes(), nil
}

func (callee *Callee) GobDecode(data []byte) error {
	return gob.NewDecoder(bytes.NewReader(data)).Decode(&callee.impl)
}
