// Copyright 2023 The Go Authors. All rights reserved.
// Use of this source code is governed by a BSD-style
// license that can be found in the LICENSE file.

package inline

import (
	"fmt"
	"go/ast"
	"go/token"
	"go/types"
)

// escape implements a simple "address-taken" escape analysis. It
// calls f for each local variable that appears on the left side of an
// assignment (escapes=false) or has its address taken (escapes=true).
// The initialization of a variable by its declaration does not count
// as an assignment.
func escape(info *types.Info, root ast.Node, f func(v *types.Var, escapes bool)) {

	// lvalue is called for each address-taken expression or LHS of assignment.
	// Supported forms are: x, (x), x[i], x.f, *x, T{}.
	var lvalue func(e ast.Expr, escapes bool)
	lvalue = func(e ast.Expr, escapes bool) {
		switch e := e.(type) {
		case *ast.Ident:
			if v, ok := info.Uses[e].(*types.Var); ok {
				if !isPkgLevel(v) {
					f(v, escapes)
				}
			}
		case *ast.ParenExpr:
			lvalue(e.X, escapes)
		case *ast.IndexExpr:
			// TODO(adonovan): support generics without assuming e.X has a core type.
			// Consider:
			//
			// func Index[T interface{ [3]int | []int }](t T, i int) *int {
			//     return &t[i]
			// }
			//
			// We must traverse the normal terms and check
			// whether any of them is an array.
			//
			// We assume TypeOf returns non-nil.
			if _, ok := info.TypeOf(e.X).Underlying().(*types.Array); ok {
				lvalue(e.X, escapes) // &a[i] on array
			}
		case *ast.SelectorExpr:
			// We assume TypeOf returns non-nil.
			if _, ok := info.TypeOf(e.X).Underlying().(*types.Struct); ok {
				lvalue(e.X, escapes) // &s.f on struct
			}
		case *ast.StarExpr:
			// *ptr indirects an existing pointer
		case *ast.CompositeLit:
			// &T{...} creates a new variable
		default:
			panic(fmt.Sprintf("&x on %T", e)) // unreachable in well-typed code
		}
	}

	// Search function body for operations &x, x.f(), x++, and x = y
	// where x is a parameter. Each of these treats x as an address.
	ast.Inspect(root, func(n ast.Node) bool {
		switch n := n.(type) {
		case *ast.UnaryExpr:
			if n.Op == token.AND {
				lvalue(n.X, true) // &x
			}

		case *ast.CallExpr:
			// implicit &x in method call x.f(),
			// where x has type T and method is (*T).f
			if sel, ok := n.Fun.(*ast.SelectorExpr); ok {
				if seln, ok := info.Selections[sel]; ok &&
					seln.Kind() == types.MethodVal &&
					isPointer(seln.Obj().Type().Underlying().(*types.Signature).Recv().Type()) {
					tArg, indirect := effectiveReceiver(seln)
					if !indirect && !isPointer(tArg) {
						lvalue(sel.X, true) // &x.f
					}
				}
			}

		case *ast.AssignStmt:
			for _, lhs := range n.Lhs {
				if id, ok := lhs.(*ast.Ident); ok &&
					info.Defs[id] != nil &&
					n.Tok == token.DEFINE {
					// declaration: doesn't count
				} else {
					lvalue(lhs, false)
				}
			}

		case *ast.IncDecStmt:
			lvalue(n.X, false)
		}
		return true
	})
}
