// Copyright 2023 The Go Authors. All rights reserved.
// Use of this source code is governed by a BSD-style
// license that can be found in the LICENSE file.

package inline

// This file defines the callee side of the "fallible constant" analysis.

import (
	"fmt"
	"go/ast"
	"go/constant"
	"go/format"
	"go/token"
	"go/types"
	"strconv"
	"strings"

	"golang.org/x/tools/go/types/typeutil"
	"lncverif/xinline/typeparams"
)

// falconResult is the result of the analysis of the callee.
type falconResult struct {
	Types       []falconType // types for falcon constraint environment
	Constraints []string     // constraints (Go expressions) on values of fallible constants
}

// A falconType specifies the name and underlying type of a synthetic
// defined type for use in falcon constraints.
//
// Unique types from callee code are bijectively mapped onto falcon
// types so that constraints are independent of callee type
// information but preserve type equivalence classes.
//
// Fresh names are deliberately obscure to avoid shadowing even if a
// callee parameter has a nanme like "int" or "any".
type falconType struct {
	Name string
	Kind types.BasicKind // string/number/bool
}

// falcon identifies "fallible constant" expressions, which are
// expressions that may fail to compile if one or more of their
// operands is changed from non-constant to constant.
//
// Consider:
//
//	func sub(s string, i, j int) string { return s[i:j] }
//
// If parameters are replaced by constants, the compiler is
// required to perform these additional checks:
//
//   - if i is constant, 0 <= i.
//   - if s and i are constant, i <= len(s).
//   - ditto for j.
//   - if i and j are constant, i <= j.
//
// s[i:j] is thus a "fallible constant" expression dependent on {s, i,
// j}. Each falcon creates a set of conditional constraints across one
// or more parameter variables.
//
//   - When inlining a call such as sub("abc", -1, 2), the parameter i
//     cannot be eliminated by substitution as its argument value is
//     negative.
//
//   - When inlining sub("", 2, 1), all three parameters cannot be
//     simultaneously eliminated by substitution without violating i
//     <= len(s) and j <= len(s), but the parameters i and j could be
//     safely eliminated without s.
//
// Parameters that cannot be eliminated must remain non-constant,
// either in the form of a binding declaration:
//
//	{ var i int = -1; return "abc"[i:2] }
//
// or a parameter of a literalization:
//
//	func (i int) string { return "abc"[i:2] }(-1)
//
// These example expressions are obviously doomed to fail at run
// time, but in realistic cases such expressions are dominated by
// appropriate conditions that make them reachable only when safe:
//
//	if 0 <= i && i <= j && j <= len(s) { _ = s[i:j] }
//
// (In principle a more sophisticated inliner could entirely eliminate
// such unreachable blocks based on the condition being always-false
// for the given parameter substitution, but this is tricky to do safely
// because the type-checker considers only a single configuration.
// Consider: if runtime.GOOS == "linux" { ... }.)
//
// We believe this is an exhaustive list of "fallible constant" operations:
//
//   - switch z { case x: case y } 	// duplicate case values
//   - s[i], s[i:j], s[i:j:k]		// index out of bounds (0 <= i <= j <= k <= len(s))
//   - T{x: 0}				// index out of bounds, duplicate index
//   - x/y, x%y, x/=y, x%=y		// integer division by zero; minint/-1 overflow
//   - x+y, x-y, x*y			// arithmetic overflow
//   - x<<y				// shift out of range
//   - -x				// negation of minint
//   - T(x)				// value out of range
//
// The fundamental reason for this elaborate algorithm is that the
// "separate analysis" of callee and caller, as required when running
// in an environment such as unitchecker, means that there is no way
// for us to simply invoke the type checker on the combination of
// caller and callee code, as by the time we analyze the caller, we no
// longer have access to type information for the callee (and, in
// particular, any of its direct dependencies that are not direct
// dependencies of the caller). So, in effect, we are forced to map
// the problem in a neutral (callee-type-independent) constraint
// system that can be verified later.
func falcon(logf func(string, ...any), fset *token.FileSet, params map[*types.Var]*paramInfo, info *types.Info, decl *ast.FuncDecl) falconResult {

	st := &falconState{
		logf:   logf,
		fset:   fset,
		params: params,
		info:   info,
		decl:   decl,
	}

	// type mapping
	st.int = st.typename(types.Typ[types.Int])
	st.any = "interface{}" // don't use "any" as it may be shadowed
	for obj, info := range st.params {
		if isBasic(obj.Type(), types.IsConstType) {
			info.FalconType = st.typename(obj.Type())
		}
	}

	st.stmt(st.decl.Body)

	return st.result
}

type falconState struct {
	// inputs
	logf   func(string, ...any)
	fset   *token.FileSet
	params map[*types.Var]*paramInfo
	info   *types.Info
	decl   *ast.FuncDecl

	// working state
	int       string
	any       string
	typenames typeutil.Map

	result falconResult
}

// typename returns the name in the falcon constraint system
// of a given string/number/bool type t. Falcon types are
// specified directly in go/types data structures rather than
// by name, avoiding potential shadowing conflicts with
// confusing parameter names such as "int".
//
// Also, each distinct type (as determined by types.Identical)
// is mapped to a fresh type in the falcon system so that we
// can map the types in the callee code into a neutral form
// that does not depend on imports, allowing us to detect
// potential conflicts such as
//
//	map[any]{T1(1): 0, T2(1): 0}
//
// where T1=T2.
func (st *falconState) typename(t types.Type) string {
	name, ok := st.typenames.At(t).(string)
	if !ok {
		basic := t.Underlying().(*types.Basic)

		// That dot ۰ is an Arabic zero numeral U+06F0.
		// It is very unlikely to appear in a real program.
		// TODO(adonovan): use a non-heuristic solution.
		name = fmt.Sprintf("%s۰%d", basic, st.typenames.Len())
		st.typenames.Set(t, name)
		st.logf("falcon: emit type %s %s // %q", name, basic, t)
		st.result.Types = append(st.result.Types, falconType{
			Name: name,
			Kind: basic.Kind(),
		})
	}
	return name
}

// -- constraint emission --

// emit emits a Go expression that must have a legal type.
// In effect, we let the go/types constant folding algorithm
// do most of the heavy lifting (though it may be hard to
// believe from the complexity of this algorithm!).
func (st *falconState) emit(constraint ast.Expr) {
	var out strings.Builder
	if err := format.Node(&out, st.fset, constraint); err != nil {
		panic(err) // can't happen
	}
	syntax := out.String()
	st.logf("falcon: emit constraint %s", syntax)
	st.result.Constraints = append(st.result.Constraints, syntax)
}

// emitNonNegative emits an []T{}[index] constraint,
// which ensures index is non-negative if constant.
func (st *falconState) emitNonNegative(index ast.Expr) {
	st.emit(&ast.IndexExpr{
		X: &ast.CompositeLit{
			Type: &ast.ArrayType{
				Elt: makeIdent(st.int),
			},
		},
		Index: index,
	})
}

// emitMonotonic emits an []T{}[i:j] constraint,
// which ensures i <= j if both are constant.
func (st *falconState) emitMonotonic(i, j ast.Expr) {
	st.emit(&ast.SliceExpr{
		X: &ast.CompositeLit{
			Type: &ast.ArrayType{
				Elt: makeIdent(st.int),
			},
		},
		Low:  i,
		High: j,
	})
}

// emitUnique emits a T{elem1: 0, ... elemN: 0} constraint,
// which ensures that all constant elems are unique.
// T may be a map, slice, or array depending
// on the desired check semantics.
func (st *falconState) emitUnique(typ ast.Expr, elems []ast.Expr) {
	if len(elems) > 1 {
		var elts []ast.Expr
		for _, elem := range elems {
			elts = append(elts, &ast.KeyValueExpr{
				Key:   elem,
				Value: makeIntLit(0),
			})
		}
		st.emit(&ast.CompositeLit{
			Type: typ,
			Elts: elts,
		})
	}
}

// -- traversal --

// The traversal functions scan the callee body for expressions that
// are not constant but would become constant if the parameter vars
// were redeclared as constants, and emits for each one a constraint
// (a Go expression) with the property that it will not type-check
// (using types.CheckExpr) if the particular argument values are
// unsuitable.
//
// These constraints are checked by Inline with the actual
// constant argument values. Violations cause it to reject
// parameters as candidates for substitution.

func (st *falconState) stmt(s ast.Stmt) {
	ast.Inspect(s, func(n ast.Node) bool {
		switch n := n.(type) {
		case ast.Expr:
			_ = st.expr(n)
			return false // skip usual traversal

		case *ast.AssignStmt:
			switch n.Tok {
			case token.QUO_ASSIGN, token.REM_ASSIGN:
				// x /= y
				// Possible "integer division by zero"
				// Emit constraint: 1/y.
				_ = st.expr(n.Lhs[0])
				kY := st.expr(n.Rhs[0])
				if kY, ok := kY.(ast.Expr); ok {
					op := token.QUO
					if n.Tok == token.REM_ASSIGN {
						op = token.REM
					}
					st.emit(&ast.BinaryExpr{
						Op: op,
						X:  makeIntLit(1),
						Y:  kY,
					})
				}
				return false // skip usual traversal
			}

		case *ast.SwitchStmt:
			if n.Init != nil {
				st.stmt(n.Init)
			}
			tBool := types.Type(types.Typ[types.Bool])
			tagType := tBool // default: true
			if n.Tag != nil {
				st.expr(n.Tag)
				tagType = st.info.TypeOf(n.Tag)
			}

			// Possible "duplicate case value".
			// Emit constraint map[T]int{v1: 0, ..., vN:0}
			// to ensure all maybe-constant case values are unique
			// (unless switch tag is boolean, which is relaxed).
			var unique []ast.Expr
			for _, clause := range n.Body.List {
				clause := clause.(*ast.CaseClause)
				for _, caseval := range clause.List {
					if k := st.expr(caseval); k != nil {
						unique = append(unique, st.toExpr(k))
					}
				}
				for _, stmt := range clause.Body {
					st.stmt(stmt)
				}
			}
			if unique != nil && !types.Identical(tagType.Underlying(), tBool) {
				tname := st.any
				if !types.IsInterface(tagType) {
					tname = st.typename(tagType)
				}
				t := &ast.MapType{
					Key:   makeIdent(tname),
					Value: makeIdent(st.int),
				}
				st.emitUnique(t, unique)
			}
		}
		return true
	})
}

// fieldTypes visits the .Type of each field in the list.
func (st *falconState) fieldTypes(fields *ast.FieldList) {
	if fields != nil {
		for _, field := range fields.List {
			_ = st.expr(field.Type)
		}
	}
}

// expr visits the expression (or type) and returns a
// non-nil result if the expression is constant or would
// become constant if all suitable function parameters were
// redeclared as constants.
//
// If the expression is constant, st.expr returns its type
// and value (types.TypeAndValue). If the expression would
// become constant, st.expr returns an ast.Expr tree whose
// leaves are literals and parameter references, and whose
// interior nodes are operations that may become constant,
// such as -x, x+y, f(x), and T(x). We call these would-be
// constant expressions "fallible constants", since they may
// fail to type-check for some values of x, i, and j. (We
// refer to the non-nil cases collectively as "maybe
// constant", and the nil case as "definitely non-constant".)
//
// As a side effect, st.expr emits constraints for each
// fallible constant expression; this is its main purpose.
//
// Consequently, st.expr must visit the entire subtree so
// that all necessary constraints are emitted. It may not
// short-circuit the traversal when it encounters a constant
// subexpression as constants may contain arbitrary other
// syntax that may impose constraints. Consider (as always)
// this contrived but legal example of a type parameter (!)
// that contains statement syntax:
//
//	func f[T [unsafe.Sizeof(func() { stmts })]int]()
//
// There is no need to emit constraints for (e.g.) s[i] when s
// and i are already constants, because we know the expression
// is sound, but it is sometimes easier to emit these
// redundant constraints than to avoid them.
func (st *falconState) expr(e ast.Expr) (res any) { // = types.TypeAndValue | ast.Expr
	tv := st.info.Types[e]
	if tv.Value != nil {
		// A constant value overrides any other result.
		defer func() { res = tv }()
	}

	switch e := e.(type) {
	case *ast.Ident:
		if v, ok := st.info.Uses[e].(*types.Var); ok {
			if _, ok := st.params[v]; ok && isBasic(v.Type(), types.IsConstType) {
				return e // reference to constable parameter
			}
		}
		// (References to *types.Const are handled by the defer.)

	case *ast.BasicLit:
		// constant

	case *ast.ParenExpr:
		return st.expr(e.X)

	case *ast.FuncLit:
		_ = st.expr(e.Type)
		st.stmt(e.Body)
		// definitely non-constant

	case *ast.CompositeLit:
		// T{k: v, ...}, where T ∈ {array,*array,slice,map},
		// imposes a constraint that all constant k are
		// distinct and, for arrays [n]T, within range 0-n.
		//
		// Types matter, not just values. For example,
		// an interface-keyed map may contain keys
		// that are numerically equal so long as they
		// are of distinct types. For example:
		//
		//   type myint int
		//   map[any]bool{1: true, 1:        true} // error: duplicate key
		//   map[any]bool{1: true, int16(1): true} // ok
		//   map[any]bool{1: true, myint(1): true} // ok
		//
		// This can be asserted by emitting a
		// constraint of the form T{k1: 0, ..., kN: 0}.
		if e.Type != nil {
			_ = st.expr(e.Type)
		}
		t := types.Unalias(typeparams.Deref(tv.Type))
		var uniques []ast.Expr
		for _, elt := range e.Elts {
			if kv, ok := elt.(*ast.KeyValueExpr); ok {
				if !is[*types.Struct](t) {
					if k := st.expr(kv.Key); k != nil {
						uniques = append(uniques, st.toExpr(k))
					}
				}
				_ = st.expr(kv.Value)
			} else {
				_ = st.expr(elt)
			}
		}
		if uniques != nil {
			// Inv: not a struct.

			// The type T in constraint T{...} depends on the CompLit:
			// - for a basic-keyed map, use map[K]int;
			// - for an interface-keyed map, use map[any]int;
			// - for a slice, use []int;
			// - for an array or *array, use [n]int.
			// The last two entail progressively stronger index checks.
			var ct ast.Expr // type syntax for constraint
			switch t := typeparams.CoreType(t).(type) {
			case *types.Map:
				if types.IsInterface(t.Key()) {
					ct = &ast.MapType{
						Key:   makeIdent(st.any),
						Value: makeIdent(st.int),
					}
				} else {
					ct = &ast.MapType{
						Key:   makeIdent(st.typename(t.Key())),
						Value: makeIdent(st.int),
					}
				}
			case *types.Array: // or *array
				ct = &ast.ArrayType{
					Len: makeIntLit(t.Len()),
					Elt: makeIdent(st.int),
				}
			default:
				panic(fmt.Sprintf("%T: %v", t, t))
			}
			st.emitUnique(ct, uniques)
		}
		// definitely non-constant

	case *ast.SelectorExpr:
		_ = st.expr(e.X)
		_ = st.expr(e.Sel)
		// The defer is sufficient to handle
		// qualified identifiers (pkg.Const).
		// All other cases are definitely non-constant.

	case *ast.IndexExpr:
		if tv.IsType() {
			// type C[T]
			_ = st.expr(e.X)
			_ = st.expr(e.Index)
		} else {
			// term x[i]
			//
			// Constraints (if x is slice/string/array/*array, not map):
			// - i >= 0
			//     if i is a fallible constant
			// - i < len(x)
			//     if x is array/*array and
			//     i is a fallible constant;
			//  or if s is a string and both i,
			//     s are maybe-constants,
			//     but not both are constants.
			kX := st.expr(e.X)
			kI := st.expr(e.Index)
			if kI != nil && !is[*types.Map](st.info.TypeOf(e.X).Underlying()) {
				if kI, ok := kI.(ast.Expr); ok {
					st.emitNonNegative(kI)
				}
				// Emit constraint to check indices against known length.
				// TODO(adonovan): factor with SliceExpr logic.
				var x ast.Expr
				if kX != nil {
					// string
					x = st.toExpr(kX)
				} else if arr, ok := typeparams.CoreType(typeparams.Deref(st.info.TypeOf(e.X))).(*types.Array); ok {
					// array, *array
					x = &ast.CompositeLit{
						Type: &ast.ArrayType{
							Len: makeIntLit(arr.Len()),
							Elt: makeIdent(st.int),
						},
					}
				}
				if x != nil {
					st.emit(&ast.IndexExpr{
						X:     x,
						Index: st.toExpr(kI),
					})
				}
			}
		}
		// definitely non-constant

	case *ast.SliceExpr:
		// x[low:high:max]
		//
		// Emit non-negative constraints for each index,
		// plus low <= high <= max <= len(x)
		// for each pair that are maybe-constant
		// but not definitely constant.

		kX := st.expr(e.X)
		var kLow, kHigh, kMax any
		if e.Low != nil {
			kLow = st.expr(e.Low)
			if kLow != nil {
				if kLow, ok := kLow.(ast.Expr); ok {
					st.emitNonNegative(kLow)
				}
			}
		}
		if e.High != nil {
			kHigh = st.expr(e.High)
			if kHigh != nil {
				if kHigh, ok := kHigh.(ast.Expr); ok {
					st.emitNonNegative(kHigh)
				}
				if kLow != nil {
					st.emitMonotonic(st.toExpr(kLow), st.toExpr(kHigh))
				}
			}
		}
		if e.Max != nil {
			kMax = st.expr(e.Max)
			if kMax != nil {
				if kMax, ok := kMax.(ast.Expr); ok {
					st.emitNonNegative(kMax)
				}
				if kHigh != nil {
					st.emitMonotonic(st.toExpr(kHigh), st.toExpr(kMax))
				}
			}
		}

		// Emit constraint to check indices against known length.
		var x ast.Expr
		if kX != nil {
			// string
			x = st.toExpr(kX)
		} else if arr, ok := typeparams.CoreType(typeparams.Deref(st.info.TypeOf(e.X))).(*types.Array); ok {
			// array, *array
			x = &ast.CompositeLit{
				Type: &ast.ArrayType{
					Len: makeIntLit(arr.Len()),
					Elt: makeIdent(st.int),
				},
			}
		}
		if x != nil {
			// Avoid slice[::max] if kHigh is nonconstant (nil).
			high, max := st.toExpr(kHigh), st.toExpr(kMax)
			if high == nil {
				high = max // => slice[:max:max]
			}
			st.emit(&ast.SliceExpr{
				X:    x,
				Low:  st.toExpr(kLow),
				High: high,
				Max:  max,
			})
		}
		// definitely non-constant

	case *ast.TypeAssertExpr:
		_ = st.expr(e.X)
		if e.Type != nil {
			_ = st.expr(e.Type)
		}

	case *ast.CallExpr:
		_ = st.expr(e.Fun)
		if tv, ok := st.info.Types[e.Fun]; ok && tv.IsType() {
			// conversion T(x)
			//
			// Possible "value out of range".
			kX := st.expr(e.Args[0])
			if kX != nil && isBasic(tv.Type, types.IsConstType) {
				conv := convert(makeIdent(st.typename(tv.Type)), st.toExpr(kX))
				if is[ast.Expr](kX) {
					st.emit(conv)
				}
				return conv
			}
			return nil // definitely non-constant
		}

		// call f(x)

		all := true // all args are possibly-constant
		kArgs := make([]ast.Expr, len(e.Args))
		for i, arg := range e.Args {
			if kArg := st.expr(arg); kArg != nil {
				kArgs[i] = st.toExpr(kArg)
			} else {
				all = false
			}
		}

		// Calls to built-ins with fallibly constant arguments
		// may become constant. All other calls are either
		// constant or non-constant
		if id, ok := e.Fun.(*ast.Ident); ok && all && tv.Value == nil {
			if builtin, ok := st.info.Uses[id].(*types.Builtin); ok {
				switch builtin.Name() {
				case "len", "imag", "real", "complex", "min", "max":
					return &ast.CallExpr{
						Fun:      id,
						Args:     kArgs,
						Ellipsis: e.Ellipsis,
					}
				}
			}
		}

	case *ast.StarExpr: // *T, *ptr
		_ = st.expr(e.X)

	case *ast.UnaryExpr:
		// + - ! ^ & <- ~
		//
		// Possible "negation of minint".
		// Emit constraint: -x
		kX := st.expr(e.X)
		if kX != nil && !is[types.TypeAndValue](kX) {
			if e.Op == token.SUB {
				st.emit(&ast.UnaryExpr{
					Op: e.Op,
					X:  st.toExpr(kX),
				})
			}

			return &ast.UnaryExpr{
				Op: e.Op,
				X:  st.toExpr(kX),
			}
		}

	case *ast.BinaryExpr:
		kX := st.expr(e.X)
		kY := st.expr(e.Y)
		switch e.Op {
		case token.QUO, token.REM:
			// x/y, x%y
			//
			// Possible "integer division by zero" or
			// "minint / -1" overflow.
			// Emit constraint: x/y or 1/y
			if kY != nil {
				if kX == nil {
					kX = makeIntLit(1)
				}
				st.emit(&ast.BinaryExpr{
					Op: e.Op,
					X:  st.toExpr(kX),
					Y:  st.toExpr(kY),
				})
			}

		case token.ADD, token.SUB, token.MUL:
			// x+y, x-y, x*y
			//
			// Possible "arithmetic overflow".
			// Emit constraint: x+y
			if kX != nil && kY != nil {
				st.emit(&ast.BinaryExpr{
					Op: e.Op,
					X:  st.toExpr(kX),
					Y:  st.toExpr(kY),
				})
			}

		case token.SHL, token.SHR:
			// x << y, x >> y
			//
			// Possible "constant shift too large".
			// Either operand may be too large individually,
			// and they may be too large together.
			// Emit constraint:
			//    x << y (if both maybe-constant)
			//    x << 0 (if y is non-constant)
			//    1 << y (if x is non-constant)
			if kX != nil || kY != nil {
				x := st.toExpr(kX)
				if x == nil {
					x = makeIntLit(1)
				}
				y := st.toExpr(kY)
				if y == nil {
					y = makeIntLit(0)
				}
				st.emit(&ast.BinaryExpr{
					Op: e.Op,
					X:  x,
					Y:  y,
				})
			}

		case token.LSS, token.GTR, token.EQL, token.NEQ, token.LEQ, token.GEQ:
			// < > == != <= <=
			//
			// A "x cmp y" expression with constant operands x, y is
			// itself constant, but I can't see how a constant bool
			// could be fallible: the compiler doesn't reject duplicate
			// boolean cases in a switch, presumably because boolean
			// switches are less like n-way branches and more like
			// sequential if-else chains with possibly overlapping
			// conditions; and there is (sadly) no way to convert a
			// boolean constant to an int constant.
		}
		if kX != nil && kY != nil {
			return &ast.BinaryExpr{
				Op: e.Op,
				X:  st.toExpr(kX),
				Y:  st.toExpr(kY),
			}
		}

	// types
	//
	// We need to visit types (and even type parameters)
	// in order to reach all the places where things could go wrong:
	//
	// 	const (
	// 		s = ""
	// 		i = 0
	// 	)
	// 	type C[T [unsafe.Sizeof(func() { _ = s[i] })]int] bool

	case *ast.IndexListExpr:
		_ = st.expr(e.X)
		for _, expr := range e.Indices {
			_ = st.expr(expr)
		}

	case *ast.Ellipsis:
		if e.Elt != nil {
			_ = st.expr(e.Elt)
		}

	case *ast.ArrayType:
		if e.Len != nil {
			_ = st.expr(e.Len)
		}
		_ = st.expr(e.Elt)

	case *ast.StructType:
		st.fieldTypes(e.Fields)

	case *ast.FuncType:
		st.fieldTypes(e.TypeParams)
		st.fieldTypes(e.Params)
		st.fieldTypes(e.Results)

	case *ast.InterfaceType:
		st.fieldTypes(e.Methods)

	case *ast.MapType:
		_ = st.expr(e.Key)
		_ = st.expr(e.Value)

	case *ast.ChanType:
		_ = st.expr(e.Value)
	}
	return
}

// toExpr converts the result of visitExpr to a falcon expression.
// (We don't do this in visitExpr as we first need to discriminate
// constants from maybe-constants.)
func (st *falconState) toExpr(x any) ast.Expr {
	switch x := x.(type) {
	case nil:
		return nil

	case types.TypeAndValue:
		lit := makeLiteral(x.Value)
		if !isBasic(x.Type, types.IsUntyped) {
			// convert to "typed" type
			lit = &ast.CallExpr{
				Fun:  makeIdent(st.typename(x.Type)),
				Args: []ast.Expr{lit},
			}
		}
		return lit

	case ast.Expr:
		return x

	default:
		panic(x)
	}
}

func makeLiteral(v constant.Value) ast.Expr {
	switch v.Kind() {
	case constant.Bool:
		// Rather than refer to the true or false built-ins,
		// which could be shadowed by poorly chosen parameter
		// names, we use 0 == 0 for true and 0 != 0 for false.
		op := token.EQL
		if !constant.BoolVal(v) {
			op = token.NEQ
		}
		return &ast.BinaryExpr{
			Op: op,
			X:  makeIntLit(0),
			Y:  makeIntLit(0),
		}

	case constant.String:
		return &ast.BasicLit{
			Kind:  token.STRING,
			Value: v.ExactString(),
		}

	case constant.Int:
		return &ast.BasicLit{
			Kind:  token.INT,
			Value: v.ExactString(),
		}

	case constant.Float:
		return &ast.BasicLit{
			Kind:  token.FLOAT,
			Value: v.ExactString(),
		}

	case constant.Complex:
		// The components could be float or int.
		y := makeLiteral(constant.Imag(v))
		y.(*ast.BasicLit).Value += "i" // ugh
		if re := constant.Real(v); !consteq(re, kZeroInt) {
			// complex: x + yi
			y = &ast.BinaryExpr{
				Op: token.ADD,
				X:  makeLiteral(re),
				Y:  y,
			}
		}
		return y

	default:
		panic(v.Kind())
	}
}

func makeIntLit(x int64) *ast.BasicLit {
	return &ast.BasicLit{
		Kind:  token.INT,
		Value: strconv.FormatInt(x, 10),
	}
}

func isBasic(t types.Type, info types.BasicInfo) bool {
	basic, ok := t.Underlying().(*types.Basic)
	return ok && basic.Info()&info != 0
}
