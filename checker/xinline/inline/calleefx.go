// Copyright 2023 The Go Authors. All rights reserved.
// Use of this source code is governed by a BSD-style
// license that can be found in the LICENSE file.

package inline

// This file defines the analysis of callee effects.

import (
	"go/ast"
	"go/token"
	"go/types"
)

const (
	rinf = -1 //  R∞: arbitrary read from memory
	winf = -2 //  W∞: arbitrary write to memory (or unknown control)
)

// calleefx returns a list of parameter indices indicating the order
// in which parameters are first referenced during evaluation of the
// callee, relative both to each other and to other effects of the
// callee (if any), such as arbitrary reads (rinf) and arbitrary
// effects (winf), including unknown control flow. Each parameter
// that is referenced appears once in the list.
//
// For example, the effects list of this function:
//
//	func f(x, y, z int) int {
//	    return y + x + g() + z
//	}
//
// is [1 0 -2 2], indicating reads of y and x, followed by the unknown
// effects of the g() call. and finally the read of parameter z. This
// information is used during inlining to ascertain when it is safe
// for parameter references to be replaced by their corresponding
// argument expressions. Such substitutions are permitted only when
// they do not cause "write" operations (those with effects) to
// commute with "read" operations (those that have no effect but are
// not pure). Impure operations may be reordered with other impure
// operations, and pure operations may be reordered arbitrarily.
//
// The analysis ignores the effects of runtime panics, on the
// assumption that well-behaved programs shouldn't encounter them.
func calleefx(info *types.Info, body *ast.BlockStmt, paramInfos map[*types.Var]*paramInfo) []int {
	// This traversal analyzes the callee's statements (in syntax
	// form, though one could do better with SSA) to compute the
	// sequence of events of the following kinds:
	//
	// 1  read of a parameter variable.
	// 2. reads from other memory.
	// 3. writes to memory

	var effects []int // indices of parameters, or rinf/winf (-ve)
	seen := make(map[int]bool)
	effect := func(i int) {
		if !seen[i] {
			seen[i] = true
			effects = append(effects, i)
		}
	}

	// unknown is called for statements of unknown effects (or control).
	unknown := func() {
		effect(winf)

		// Ensure that all remaining parameters are "seen"
		// after we go into the unknown (unless they are
		// unreferenced by the function body). This lets us
		// not bother implementing the complete traversal into
		// control structures.
		//
		// TODO(adonovan): add them in a deterministic order.
		// (This is not a bug but determinism is good.)
		for _, pinfo := range paramInfos {
			if !pinfo.IsResult && len(pinfo.Refs) > 0 {
				effect(pinfo.Index)
			}
		}
	}

	var visitExpr func(n ast.Expr)
	var visitStmt func(n ast.Stmt) bool
	visitExpr = func(n ast.Expr) {
		switch n := n.(type) {
		case *ast.Ident:
			if v, ok := info.Uses[n].(*types.Var); ok && !v.IsField() {
				// Use of global?
				if v.Parent() == v.Pkg().Scope() {
					effect(rinf) // read global var
				}

				// Use of parameter?
				if pinfo, ok := paramInfos[v]; ok && !pinfo.IsResult {
					effect(pinfo.Index) // read parameter var
				}

				// Use of local variables is ok.
			}

		case *ast.BasicLit:
			// no effect

		case *ast.FuncLit:
			// A func literal has no read or write effect
			// until called, and (most) function calls are
			// considered to have arbitrary effects.
			// So, no effect.

		case *ast.CompositeLit:
			for _, elt := range n.Elts {
				visitExpr(elt) // note: visits KeyValueExpr
			}

		case *ast.ParenExpr:
			visitExpr(n.X)

		case *ast.SelectorExpr:
			if seln, ok := info.Selections[n]; ok {
				visitExpr(n.X)

				// See types.SelectionKind for background.
				switch seln.Kind() {
				case types.MethodExpr:
					// A method expression T.f acts like a
					// reference to a func decl,
					// so it doesn't read x until called.

				case types.MethodVal, types.FieldVal:
					// A field or method value selection x.f
					// reads x if the selection indirects a pointer.

					if indirectSelection(seln) {
						effect(rinf)
					}
				}
			} else {
				// qualified identifier: treat like unqualified
				visitExpr(n.Sel)
			}

		case *ast.IndexExpr:
			if tv := info.Types[n.Index]; tv.IsType() {
				// no effect (G[T] instantiation)
			} else {
				visitExpr(n.X)
				visitExpr(n.Index)
				switch tv.Type.Underlying().(type) {
				case *types.Slice, *types.Pointer: // []T, *[n]T (not string, [n]T)
					effect(rinf) // indirect read of slice/array element
				}
			}

		case *ast.IndexListExpr:
			// no effect (M[K,V] instantiation)

		case *ast.SliceExpr:
			visitExpr(n.X)
			visitExpr(n.Low)
			visitExpr(n.High)
			visitExpr(n.Max)

		case *ast.TypeAssertExpr:
			visitExpr(n.X)

		case *ast.CallExpr:
			if info.Types[n.Fun].IsType() {
				// conversion T(x)
				visitExpr(n.Args[0])
			} else {
				// call f(args)
				visitExpr(n.Fun)
				for i, arg := range n.Args {
					if i == 0 && info.Types[arg].IsType() {
						continue // new(T), make(T, n)
					}
					visitExpr(arg)
				}

				// The pure built-ins have no effects beyond
				// those of their operands (not even memory reads).
				// All other calls have unknown effects.
				if !callsPureBuiltin(info, n) {
					unknown() // arbitrary effects
				}
			}

		case *ast.StarExpr:
			visitExpr(n.X)
			effect(rinf) // *ptr load or store depends on state of heap

		case *ast.UnaryExpr: // + - ! ^ & ~ <-
			visitExpr(n.X)
			if n.Op == token.ARROW {
				unknown() // effect: channel receive
			}

		case *ast.BinaryExpr:
			visitExpr(n.X)
			visitExpr(n.Y)

		case *ast.KeyValueExpr:
			visitExpr(n.Key) // may be a struct field
			visitExpr(n.Value)

		case *ast.BadExpr:
			// no effect

		case nil:
			// optional subtree

		default:
			// type syntax: unreachable given traversal
			panic(n)
		}
	}

	// visitStmt's result indicates the continuation:
	// false for return, true for the next statement.
	//
	// We could treat return as an unknown, but this way
	// yields definite effects for simple sequences like
	// {S1; S2; return}, so unreferenced parameters are
	// not spuriously added to the effects list, and thus
	// not spuriously disqualified from elimination.
	visitStmt = func(n ast.Stmt) bool {
		switch n := n.(type) {
		case *ast.DeclStmt:
			decl := n.Decl.(*ast.GenDecl)
			for _, spec := range decl.Specs {
				switch spec := spec.(type) {
				case *ast.ValueSpec:
					for _, v := range spec.Values {
						visitExpr(v)
					}

				case *ast.TypeSpec:
					// no effect
				}
			}

		case *ast.LabeledStmt:
			return visitStmt(n.Stmt)

		case *ast.ExprStmt:
			visitExpr(n.X)

		case *ast.SendStmt:
			visitExpr(n.Chan)
			visitExpr(n.Value)
			unknown() // effect: channel send

		case *ast.IncDecStmt:
			visitExpr(n.X)
			unknown() // effect: variable increment

		case *ast.AssignStmt:
			for _, lhs := range n.Lhs {
				visitExpr(lhs)
			}
			for _, rhs := range n.Rhs {
				visitExpr(rhs)
			}
			for _, lhs := range n.Lhs {
				id, _ := lhs.(*ast.Ident)
				if id != nil && id.Name == "_" {
					continue // blank assign has no effect
				}
				if n.Tok == token.DEFINE && id != nil && info.Defs[id] != nil {
					continue // new var declared by := has no effect
				}
				unknown() // assignment to existing var
				break
			}

		case *ast.GoStmt:
			visitExpr(n.Call.Fun)
			for _, arg := range n.Call.Args {
				visitExpr(arg)
			}
			unknown() // effect: create goroutine

		case *ast.DeferStmt:
			visitExpr(n.Call.Fun)
			for _, arg := range n.Call.Args {
				visitExpr(arg)
			}
			unknown() // effect: push defer

		case *ast.ReturnStmt:
			for _, res := range n.Results {
				visitExpr(res)
			}
			return false

		case *ast.BlockStmt:
			for _, stmt := range n.List {
				if !visitStmt(stmt) {
					return false
				}
			}

		case *ast.BranchStmt:
			unknown() // control flow

		case *ast.IfStmt:
			visitStmt(n.Init)
			visitExpr(n.Cond)
			unknown() // control flow

		case *ast.SwitchStmt:
			visitStmt(n.Init)
			visitExpr(n.Tag)
			unknown() // control flow

		case *ast.TypeSwitchStmt:
			visitStmt(n.Init)
			visitStmt(n.Assign)
			unknown() // control flow

		case *ast.SelectStmt:
			unknown() // control flow

		case *ast.ForStmt:
			visitStmt(n.Init)
			visitExpr(n.Cond)
			unknown() // control flow

		case *ast.RangeStmt:
			visitExpr(n.X)
			unknown() // control flow

		case *ast.EmptyStmt, *ast.BadStmt:
			// no effect

		case nil:
			// optional subtree

		default:
			panic(n)
		}
		return true
	}
	visitStmt(body)

	return effects
}
