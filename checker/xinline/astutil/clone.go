// Copyright 2023 The Go Authors. All rights reserved.
// Use of this source code is governed by a BSD-style
// license that can be found in the LICENSE file.

package astutil

import (
	"go/ast"
	"reflect"
)

// CloneNode returns a deep copy of a Node.
// It omits pointers to ast.{Scope,Object} variables.
func CloneNode[T ast.Node](n T) T {
	return cloneNode(n).(T)
}

func cloneNode(n ast.Node) ast.Node {
	var clone func(x reflect.Value) reflect.Value
	set := func(dst, src reflect.Value) {
		src = clone(src)
		if src.IsValid() {
			dst.Set(src)
		}
	}
	clone = func(x reflect.Value) reflect.Value {
		switch x.Kind() {
		case reflect.Ptr:
			if x.IsNil() {
				return x
			}
			// Skip fields of types potentially involved in cycles.
			switch x.Interface().(type) {
			case *ast.Object, *ast.Scope:
				return reflect.Zero(x.Type())
			}
			y := reflect.New(x.Type().Elem())
			set(y.Elem(), x.Elem())
			return y

		case reflect.Struct:
			y := reflect.New(x.Type()).Elem()
			for i := 0; i < x.Type().NumField(); i++ {
				set(y.Field(i), x.Field(i))
			}
			return y

		case reflect.Slice:
			if x.IsNil() {
				return x
			}
			y := reflect.MakeSlice(x.Type(), x.Len(), x.Cap())
			for i := 0; i < x.Len(); i++ {
				set(y.Index(i), x.Index(i))
			}
			return y

		case reflect.Interface:
			y := reflect.New(x.Type()).Elem()
			set(y, x.Elem())
			return y

		case reflect.Array, reflect.Chan, reflect.Func, reflect.Map, reflect.UnsafePointer:
			panic(x) // unreachable in AST

		default:
			return x // bool, string, number
		}
	}
	return clone(reflect.ValueOf(n)).Interface().(ast.Node)
}
