// Copyright 2022 The Go Authors. All rights reserved.
// Use of this source code is governed by a BSD-style
// license that can be found in the LICENSE file.

//go:generate go run generate.go

// Package stdlib provides a table of all exported symbols in the
// standard library, along with the version at which they first
// appeared.
package stdlib

import (
	"fmt"
	"strings"
)

type Symbol struct {
	Name    string
	Kind    Kind
	Version Version // Go version that first included the symbol
}

// A Kind indicates the kind of a symbol:
// function, variable, constant, type, and so on.
type Kind int8

const (
	Invalid Kind = iota // Example name:
	Type                // "Buffer"
	Func                // "Println"
	Var                 // "EOF"
	Const               // "Pi"
	Field               // "Point.X"
	Method              // "(*Buffer).Grow"
)

func (kind Kind) String() string {
	return [...]string{
		Invalid: "invalid",
		Type:    "type",
		Func:    "func",
		Var:     "var",
		Const:   "const",
		Field:   "field",
		Method:  "method",
	}[kind]
}

// A Version represents a version of Go of the form "go1.%d".
type Version int8

// String returns a version string of the form "go1.23", without allocating.
func (v Version) String() string { return versions[v] }

var versions [30]string // (increase constant as needed)

func init() {
	for i := range versions {
		versions[i] = fmt.Sprintf("go1.%d", i)
	}
}

// HasPackage reports whether the specified package path is part of
// the standard library's public API.
func HasPackage(path string) bool {
	_, ok := PackageSymbols[path]
	return ok
}

// SplitField splits the field symbol name into type and field
// components. It must be called only on Field symbols.
//
// Example: "File.Package" -> ("File", "Package")
func (sym *Symbol) SplitField() (typename, name string) {
	if sym.Kind != Field {
		panic("not a field")
	}
	typename, name, _ = strings.Cut(sym.Name, ".")
	return
}

// SplitMethod splits the method symbol name into pointer, receiver,
// and method components. It must be called only on Method symbols.
//
// Example: "(*Buffer).Grow" -> (true, "Buffer", "Grow")
func (sym *Symbol) SplitMethod() (ptr bool, recv, name string) {
	if sym.Kind != Method {
		panic("not a method")
	}
	recv, name, _ = strings.Cut(sym.Name, ".")
	recv = recv[len("(") : len(recv)-len(")")]
	ptr = recv[0] == '*'
	if ptr {
		recv = recv[len("*"):]
	}
	return
}
