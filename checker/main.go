package main

import (
	"flag"
	"fmt"
	"os"
	"path/filepath"
	"runtime/debug"
	"sort"
	"strconv"
	"strings"
	"time"

	"golang.org/x/tools/go/ssa"
)

// propRule describes how one property is decided.
type propRule struct {
	run  func(c *Checker)
	meta runMeta
}

var registry = map[string]*propRule{}

func register(id string, explanation string, assumptions []string, run func(c *Checker)) {
	registry[id] = &propRule{run: run, meta: runMeta{explanation: explanation, assumptions: assumptions}}
}

var commonAssumptions = []string{
	"go/types and go/ssa (golang.org/x/tools v0.29.0) faithfully model the program the Go compiler builds from /repo's working tree (default build tags, amd64)",
	"test files are excluded; dependencies outside gbn and mailbox are modelled by their documented contracts only",
}

func main() {
	var (
		repo     = flag.String("repo", "/repo", "repository root")
		verif    = flag.String("verif", "/verif", "verification directory (evidence, known findings)")
		prop     = flag.String("property", "", "property id (C01..C20)")
		tier     = flag.String("tier", "quick", "quick|thorough")
		dump     = flag.String("dump", "", "dump SSA of the named function and exit")
		list     = flag.Bool("list", false, "list functions and exit")
		tags     = flag.String("tags", "", "build tags")
		mutant   = flag.String("mutant", "", "internal: apply the named sensitivity mutant through an overlay")
		explain  = flag.String("explain", "", "re-run the obligation stored in a replay file")
		mutants  = flag.Bool("mutants", false, "list the sensitivity mutants")
		noEvid   = flag.Bool("no-evidence", false, "internal: do not write evidence (mutant runs)")
		verbose  = flag.Bool("v", false, "print every obligation")
		selftest = flag.Bool("selftest", false, "run the sensitivity mutants of -property (or of all properties) and report caught/missed")
		bfuzz    = flag.Bool("benignfuzz", false, "behaviour-preserving transformation sweep: every new finding is a false alarm")
		bfOnly   = flag.String("benignfuzz-file", "", "restrict -benignfuzz to files whose path contains this string")
		genKnown = flag.Bool("gen-known", false, "internal: print the declaration keys of the tree (known_funcs.txt)")
		noNorm   = flag.Bool("no-normalise", false, "internal: skip the helper normalisation pre-pass")
		ovl      = flag.String("overlay", "", "internal: <repo file>=<replacement file> (used by -benignfuzz)")
	)
	flag.Parse()
	if *genKnown {
		genKnownFuncs(*repo)
		return
	}
	skipNormalise = *noNorm
	verifDirGlobal = *verif
	start := time.Now()
	seed := 0
	if s := os.Getenv("VERIF_SEED"); s != "" {
		seed, _ = strconv.Atoi(s)
	}

	if *mutants {
		for _, m := range allMutants() {
			fmt.Printf("%s\t%s\t%s\t%s\n", m.Name, m.Prop, m.Rule, m.File)
		}
		return
	}
	if *selftest {
		os.Exit(runSelftest(*repo, *verif, *prop))
	}
	if *bfuzz {
		os.Exit(runBenignFuzz(*repo, *verif, *bfOnly))
	}
	if *explain != "" {
		os.Exit(explainReplay(*repo, *verif, *explain))
	}

	var overlay map[string][]byte
	if *ovl != "" {
		parts := strings.SplitN(*ovl, "=", 2)
		if len(parts) == 2 {
			b, err := os.ReadFile(parts[1])
			if err != nil {
				fmt.Println("MUTANT-SKIP:", err)
				os.Exit(3)
			}
			overlay = map[string][]byte{parts[0]: b}
			if *mutant == "" {
				*mutant = "overlay"
			}
		}
	}
	if *mutant != "" && *mutant != "overlay" {
		var err error
		overlay, err = mutantOverlay(*repo, *mutant)
		if err != nil {
			fmt.Println("MUTANT-SKIP:", err)
			os.Exit(3)
		}
	}

	w, err := LoadWorld(*repo, overlay, *tags)
	if err != nil {
		if *mutant != "" {
			fmt.Println("MUTANT-SKIP: does not load:", err)
			os.Exit(3)
		}
		// A tree that does not load or type-check cannot be judged: fail.
		fmt.Println("CHECKER-ERROR:", err)
		if *prop != "" {
			fmt.Printf("VIOLATION property=%s replay=%s\n", *prop, "none:load-failure")
		}
		os.Exit(1)
	}
	if n := w.Normalised; n != nil {
		fmt.Printf("NORMALISED: %d function(s) the pinned tree does not have: %s; inlined calls: %d %v; left as written: %d %v\n",
			len(n.NewFuncs), strings.Join(n.NewFuncs, ", "), len(n.Inlined), n.Inlined, len(n.Kept), n.Kept)
	}
	if *list {
		for _, f := range w.Funcs {
			fmt.Println(fnName(f), w.pos(f.Pos()))
		}
		return
	}
	if *dump != "" {
		f := w.Func(*dump)
		if f == nil {
			fmt.Println("no such function; try -list")
			os.Exit(2)
		}
		dumpFunc(w, f)
		return
	}
	if *prop == "all" && *noEvid {
		// one load, every property: used to evaluate seeded changes (no evidence is written)
		var ids []string
		for id := range registry {
			ids = append(ids, id)
		}
		sort.Strings(ids)
		for _, id := range ids {
			ca := newChecker(w, id, *tier)
			func() {
				defer func() {
					if r := recover(); r != nil {
						ca.fail("CHECKER-PANIC", fmt.Sprint(r), 0, "the checker panicked")
					}
				}()
				registry[id].run(ca)
			}()
			ca = asWritten(w, *repo, overlay, *tags, id, *tier, *verif, ca)
			ca.applyFloors()
			for _, o := range ca.Obls {
				if o.Verdict != vOK {
					fmt.Printf("FINDING property=%s rule=%s construct=%s site=%s :: %s\n", id, o.Rule, o.Key, o.Pos, o.Detail)
				}
			}
		}
		return
	}
	pr := registry[*prop]
	if pr == nil {
		var ids []string
		for id := range registry {
			ids = append(ids, id)
		}
		sort.Strings(ids)
		fmt.Printf("unknown property %q; have %s\n", *prop, strings.Join(ids, " "))
		os.Exit(2)
	}
	c := newChecker(w, *prop, *tier)
	func() {
		defer func() {
			if r := recover(); r != nil {
				// a panic of the checker is a failure of the check, never a pass
				st := string(debug.Stack())
				if i := strings.Index(st, "panic("); i >= 0 {
					st = st[i:]
				}
				if len(st) > 1500 {
					st = st[:1500]
				}
				c.fail("CHECKER-PANIC", fmt.Sprint(r), 0, "the checker panicked; treat as undecided: "+strings.ReplaceAll(st, "\n", " | "))
			}
		}()
		pr.run(c)
	}()
	c = asWritten(w, *repo, overlay, *tags, *prop, *tier, *verif, c)
	meta := pr.meta
	meta.assumptions = append(append([]string{}, commonAssumptions...), meta.assumptions...)
	if *tier == "thorough" && *mutant == "" {
		// second build configuration: the rpctest tag (mailbox/crypto_rpctest.go)
		tagNote := ""
		if w2, err := LoadWorld(*repo, nil, "rpctest"); err != nil {
			tagNote = "rpctest configuration does not load: " + err.Error()
			c.fail("BUILD-TAG", "rpctest", 0, tagNote)
		} else {
			c2 := newChecker(w2, *prop, *tier)
			func() {
				defer func() {
					if r := recover(); r != nil {
						c2.fail("CHECKER-PANIC", fmt.Sprint(r), 0, "the checker panicked on the rpctest configuration")
					}
				}()
				pr.run(c2)
			}()
			c2.applyFloors()
			extra := 0
			have := map[string]bool{}
			for _, o := range c.Obls {
				if o.Verdict != vOK {
					have[o.Rule+"|"+o.Key] = true
				}
			}
			for _, o := range c2.Obls {
				if o.Verdict != vOK && !have[o.Rule+"|"+o.Key] {
					extra++
					c.add(o.Rule, o.Key, 0, o.Verdict, "[tags=rpctest] "+o.Detail+" @"+o.Pos)
				}
			}
			tagNote = fmt.Sprintf("rpctest configuration: %d obligations, %d not discharged", len(c2.Obls), extra)
		}
		// third build configuration: the wasm client's target platform
		wasmNote := ""
		if w3, err := LoadWorld(*repo, nil, "env:GOOS=js GOARCH=wasm"); err != nil {
			wasmNote = "js/wasm configuration does not load: " + err.Error()
			c.fail("BUILD-TAG", "js/wasm", 0, wasmNote)
		} else {
			c3 := newChecker(w3, *prop, *tier)
			func() {
				defer func() {
					if r := recover(); r != nil {
						c3.fail("CHECKER-PANIC", fmt.Sprint(r), 0, "the checker panicked on the js/wasm configuration")
					}
				}()
				pr.run(c3)
			}()
			c3.applyFloors()
			extra := 0
			have := map[string]bool{}
			for _, o := range c.Obls {
				if o.Verdict != vOK {
					have[o.Rule+"|"+o.Key] = true
				}
			}
			for _, o := range c3.Obls {
				if o.Verdict != vOK && !have[o.Rule+"|"+o.Key] {
					extra++
					c.add(o.Rule, o.Key, 0, o.Verdict, "[GOOS=js GOARCH=wasm] "+o.Detail+" @"+o.Pos)
				}
			}
			wasmNote = fmt.Sprintf("GOOS=js GOARCH=wasm configuration: %d obligations, %d not discharged", len(c3.Obls), extra)
		}
		meta.extra = thoroughExtras(*repo, *verif, *prop, c)
		meta.extra["build_configurations"] = []string{"default tags (linux/amd64)", tagNote, wasmNote}
	}
	if *verbose {
		for _, o := range c.Obls {
			fmt.Printf("%-10s %-10s %s @%s :: %s\n", o.Verdict, o.Rule, o.Key, o.Pos, o.Detail)
		}
	}
	if *noEvid {
		// mutant run: print findings only
		c.applyFloors()
		n := 0
		for _, o := range c.Obls {
			if o.Verdict != vOK {
				fmt.Printf("FINDING rule=%s construct=%s site=%s :: %s\n", o.Rule, o.Key, o.Pos, o.Detail)
				n++
			}
		}
		fmt.Printf("findings=%d obligations=%d\n", n, len(c.Obls))
		return
	}
	os.Exit(c.finish(*verif, meta, seed, start))
}

// unknownFindings counts the obligations of c that are not discharged and not recorded as known
// findings of c's property (floors included, without modifying c).
func unknownFindings(c *Checker, verif string) int {
	known, _ := loadKnown(filepath.Join(verif, "KNOWN_FINDINGS.txt"))
	n := 0
	for _, o := range c.Obls {
		if o.Verdict == vOK {
			continue
		}
		isKnown := false
		for _, k := range known {
			if k.Kind == "known" && k.Prop == c.Prop && k.Rule == o.Rule && k.Key == o.Key {
				isKnown = true
			}
		}
		if !isKnown {
			n++
		}
	}
	for r, fl := range c.floors {
		if c.countRule(r) < fl {
			n++
		}
	}
	return n
}

// asWritten: the helper normalisation produces an equivalent program; so does leaving the source
// alone. When the normalised form leaves obligations open, the tree is judged once more exactly as
// written (some rules know a helper idiom that the spliced-in form hides); the property is reported
// violated only if both equivalent forms leave something open.
var rawWorld *World

func asWritten(w *World, repo string, overlay map[string][]byte, tags, id, tier, verif string, c *Checker) *Checker {
	if w.Normalised == nil || len(w.Normalised.Inlined) == 0 || unknownFindings(c, verif) == 0 {
		return c
	}
	if rawWorld == nil {
		skipNormalise = true
		w0, err := LoadWorld(repo, overlay, tags)
		skipNormalise = false
		if err != nil {
			return c
		}
		w0.Normalised = &NormaliseNote{NewFuncs: w.Normalised.NewFuncs, Kept: []string{"judged as written: the normalised form left obligations open, the source as written does not"}}
		rawWorld = w0
	}
	c0 := newChecker(rawWorld, id, tier)
	func() {
		defer func() {
			if r := recover(); r != nil {
				c0.fail("CHECKER-PANIC", fmt.Sprint(r), 0, "the checker panicked")
			}
		}()
		registry[id].run(c0)
	}()
	if unknownFindings(c0, verif) == 0 {
		return c0
	}
	return c
}

func dumpFunc(w *World, f *ssa.Function) {
	f.WriteTo(os.Stdout)
	for _, a := range f.AnonFuncs {
		fmt.Println()
		dumpFunc(w, a)
	}
}
