#!/bin/bash
# usage: tools/eval_all.sh C07 C02 ...   evaluates /tmp/seed-<id>/OUT/{1,2}
cd "$(dirname "$0")/.."
for id in "$@"; do
  for k in 1 2; do
    d=/tmp/seed-$id/OUT/$k
    [ -f $d/patch.diff ] || continue
    python3 tools/eval_seed.py $d --keep $id-$k > /tmp/eval-$id-$k.json 2>/tmp/eval-$id-$k.err
    python3 - <<PY
import json
try:
    r=json.load(open('/tmp/eval-$id-$k.json'))
except Exception as e:
    print('$id-$k', 'EVAL-ERROR', open('/tmp/eval-$id-$k.err').read()[-300:]); raise SystemExit
print('$id-$k', 'confirmed=',r.get('confirmed'), 'demo_wo=',r.get('demo_without_change'),'demo_w=',r.get('demo_with_change'),'suites=',{k:v for k,v in r.get('suites_with_change',{}).items() if not k.endswith('_tail')}, 'own=',r.get('caught_by_own_property'))
for p,f in r.get('checks_reporting',{}).items(): print('    ',p,f[0][:230])
PY
  done
done
