#!/bin/bash
# usage: [WAVE=2] tools/eval_all.sh C07 C02 ...   evaluates /tmp/seed$WAVE-<id>/OUT/{1,2}
# and keeps the confirmed ones as seeded/<id>-<n> (n = 2*(wave-1)+k).
cd "$(dirname "$0")/.."
W=${WAVE:-}
OFF=0
[ -n "$W" ] && OFF=$(( (W-1)*2 ))
for id in "$@"; do
  for k in 1 2; do
    d=/tmp/seed$W-$id/OUT/$k
    n=$((OFF+k))
    [ -f $d/patch.diff ] || continue
    python3 tools/eval_seed.py $d --keep $id-$n > /tmp/eval-$id-$n.json 2>/tmp/eval-$id-$n.err
    python3 - <<PY
import json
try:
    r=json.load(open('/tmp/eval-$id-$n.json'))
except Exception as e:
    print('$id-$n', 'EVAL-ERROR', open('/tmp/eval-$id-$n.err').read()[-300:]); raise SystemExit
print('$id-$n', 'confirmed=',r.get('confirmed'), 'demo_wo=',r.get('demo_without_change'),'demo_w=',r.get('demo_with_change'),'suites=',{k:v for k,v in r.get('suites_with_change',{}).items() if not k.endswith('_tail')}, 'own=',r.get('caught_by_own_property'))
for p,f in r.get('checks_reporting',{}).items(): print('    ',p,f[0][:230])
PY
  done
done
