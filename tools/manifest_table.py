NOT_YET = {}

claim("C07",
      "interval/range analysis over SSA with dominance guards and proved field invariants; exhaustive site enumeration",
      "Every index, slice, integer division, unchecked type assertion, allocation size and explicit panic in the non-test code of gbn and mailbox is enumerated from the SSA of the current tree and proved safe (dominating length guards, interval analysis, field invariants proved at every store and call site, the window-range invariant base/top/seq < s) or matched against a table of sites relay data cannot reach. This decides the 'never panics on index/divide/assert' and 'window bookkeeping stays in range' clauses for all byte strings at once, which no finite set of inputs can; it is a static necessary-and-sufficient argument for those operation kinds, not for nil dereferences or panics inside dependencies.",
      "Not decided: nil-pointer dereferences, panics inside dependencies (protojson, websocket, btcec, regexp), resource exhaustion. Authenticated plaintext is treated as peer-chosen, not relay-chosen.",
      "DESIGN.md §4 C07")
