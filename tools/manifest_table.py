NOT_YET = {}

claim("C07",
      "interval/range analysis over SSA with dominance guards and proved field invariants; exhaustive site enumeration",
      "Every index, slice, integer division, unchecked type assertion, allocation size and explicit panic in the non-test code of gbn and mailbox is enumerated from the SSA of the current tree and proved safe (dominating length guards, interval analysis, field invariants proved at every store and call site, the window-range invariant base/top/seq < s) or matched against a table of sites relay data cannot reach. This decides the 'never panics on index/divide/assert' and 'window bookkeeping stays in range' clauses for all byte strings at once, which no finite set of inputs can; it is a static necessary-and-sufficient argument for those operation kinds, not for nil dereferences or panics inside dependencies.",
      "Not decided: nil-pointer dereferences, panics inside dependencies (protojson, websocket, btcec, regexp), resource exhaustion. Authenticated plaintext is treated as peer-chosen, not relay-chosen.",
      "DESIGN.md §4 C07")

claim("C19",
      "writer/reader wire-layout extraction from SSA (path enumeration of the serializers, dominance facts of the parser) and field-by-field agreement check",
      "The byte layout emitted by every Serialize (all success paths) and the layout consumed by the matching Deserialize case are extracted from the code of the current tree and compared: tag constants, field offsets, bool encodings vs. decodings, length-prefix position/width/endianness, payload range, length guards, coverage of every Message implementation and every struct field, tag uniqueness. Agreement of the two layouts is a proof-shaped argument for decode(encode(v)) == v over all field values and payloads at once, which sampling cannot give; it is claimed as 'other' because the extractor recognises a fixed set of emission/consumption idioms and trusts bytes.Buffer and encoding/binary.",
      "Not decided: payloads of 4 GiB or more (uint32 length prefix), behaviour of bytes.Buffer/encoding/binary. An unrecognised writer or reader idiom is reported as undecided (fails), never silently accepted.",
      "DESIGN.md §4 C19")

claim("C15",
      "dataflow over SSA return values (count provenance), path queries for remainder retention, interval analysis for narrowing conversions",
      "For every Read/Write method of the three secured connection types the provenance of each returned count is traced in the SSA: a Read count must be 0, the result of copy into the caller's buffer, or the count of a delegated Read on that buffer - which proves n <= len(buf) for every buffer size and message size, a statement over all inputs that tests cannot exhaust. The retention of uncopied bytes (field advanced by exactly the copy count on every path, refilled only when empty with a whole message, single writer) and the contiguity/accounting of chunked writes are checked as path properties; every narrowing conversion of a length is proved exact by interval analysis (no silent truncation).",
      "Not decided: equality of the concatenated streams as a property of whole histories (it follows from these structural facts plus C08 and C16 by induction, which the checker does not carry out). bytes.Buffer and copy are trusted.",
      "DESIGN.md §4 C15")

claim("C16",
      "who-may-call lint on typed call sites (io.Reader.Read vs io.ReadFull) with error-discipline check; dominance/ordering rules on Flush and WriteMessage",
      "Every transport read of the handshake and record layer is enumerated from the typed SSA: a bare Read on an io.Reader that is a parameter or field is a violation, io.ReadFull must have its error tested and returned - so no fragmentation of any granularity can leave a half-filled field (all fragmentations at once). For partial writes, Flush must advance each pending slice by the count of that very Write before looking at the error, must return a header error before touching the body, and WriteMessage's two Encrypt calls must be dominated by the nothing-pending test and the 65535 bound.",
      "Not decided: the arithmetic that subtracts MAC bytes from the count returned by Flush (piecewise-linear in the write count; only sampled by the repository's TestFlush).",
      "DESIGN.md §4 C16")

claim("C14",
      "dominance and path rules over SSA (must-pass-through a final-chunk hand-off; accumulator typestate), canonical-expression matching of the chunk arithmetic",
      "The chunking code is decided structurally for all payload lengths and chunk sizes at once: every success exit of Send is dominated by the hand-off of a packet whose FinalChunk flag is known to be set; each chunk is data[off:hi] with off the running offset advancing by exactly the chunk length, hi-off <= maxChunkSize and the final flag set exactly when the remainder fits; Recv's accumulator is connection state (written back before every wait, reset only on the final chunk, single writer), a message is reported only under the FinalChunk fact of the packet just received, payloads are appended whole, and ping packets are never handed to Recv. These are necessary conditions for 'one Send = one identical Recv'; the remaining, genuine gap (Send erroring after a non-final chunk) is reported as a known finding.",
      "Not decided: delivery/ordering of the packets themselves (C01) and behaviour under transport faults. Known finding: Send timeout inside a chunked message (needs a protocol change).",
      "DESIGN.md §4 C14")

claim("C20",
      "dominance rules (effects guarded by the static-mode test, by the resent flag), interval analysis of the stored timeout, who-may-write/who-may-call tables",
      "The timeout manager is decided by structural rules that hold for every event history: all state changes of Sent/Received are dominated by the !useStaticTimeout leg (a static timeout is inert); every value stored to resendTimeout or handed to the booster reset is proved >= the one-second floor by interval analysis; samples are inserted only under !resent and invalidated under resent, and Received recomputes only from a present, consumed sample; Boost increments once, only past the rate-limit test, on a booster built with the limit on; every recomputation resets the boost with the stored value. Each clause of the property maps to one of these rules; histories and inter-event times need not be enumerated because the rules are path-insensitive facts of the code.",
      "Not decided: float32 rounding in the boost product (timeout = original + float32 product), and whether a late duplicate ACK is matched to the right sample (needs reasoning about sequence-number reuse).",
      "DESIGN.md §4 C20")

claim("C12",
      "typestate/ordering rules on Close (dominance + path queries), exhaustive enumeration of blocking points with an exit-alternative rule, resource pairing (go/ticker/timer vs. Wait/Stop)",
      "Close and everything that can wait are decided structurally, for every moment at which Close may be called: the effectful body is a sync.Once closure; inside it close(quit) dominates all else, the FIN is attempted under a timeout context before cancel(), cancel() and queue.stop() dominate wg.Wait(), ticker stops come after the Wait; every blocking select / bare channel operation / WaitGroup.Wait / transport callback in gbn (enumerated from the SSA) has a termination alternative that Close triggers (quit, ctx.Done(), parent-closed channel) or a timer, and transport callbacks get g.ctx or a context derived from it; every go statement is WaitGroup-tracked and waited or self-terminating, every ticker/timer the connection creates is stopped on the close path. A schedule-independent argument of this kind is what 'at any moment, from any goroutine' needs; tests can only sample moments.",
      "Not decided: the numeric bound on how long Close takes, what the peer observes after the FIN, goroutines or timers inside dependencies (grpc, websocket). Assumes transport callbacks honour their context.",
      "DESIGN.md §4 C12")

claim("C13",
      "exhaustive enumeration of the send goroutine's waits (same-goroutine call graph) with a must-have-case rule; must-pass-through path rules for arming/disarming the timers",
      "Keepalive is decided as wiring that must hold on every path: each blocking select the send goroutine can reach has a pong-expiry case that ends the loop with errKeepaliveTimeout or is timer-bounded (so expiry is observed idle, sending, or on a full window); each ping-tick leg polls pong expiry first, then restarts and activates the pong timer and restarts the ping timer on every path, and the main loop queues a ping packet; the pong timer is activated nowhere else and 0 means never; in the receive loop every path from a successfully parsed packet to the next iteration restarts the ping timer and pauses an active pong timer; the send-loop wrapper closes the connection. These are the necessary conditions for both halves of the property; the time bound itself is not decided.",
      "Not decided: the numeric bound (ping interval + pong timeout + resend sync wait), the race between Pause and a tick that already passed the IsActive test (needs a dynamic technique).",
      "DESIGN.md §4 C13")

claim("C06",
      "exhaustive enumeration of the send goroutine's waits with a must-wake rule; must-pass-through path rules for the NACK/ACK signalling; dominance rule for restarting the resend timer",
      "Liveness over all schedules is not statically decidable here; what is decided is the wiring without which the property fails on some run: every unbounded wait of the send goroutine can be woken into queue.resend by the resend timer and by a NACK signal, the waits inside the resend path are timer- and quit-bounded, queue.resend retransmits content[i] only under i != top, the ticker is re-armed after a resend, a resend-requesting NACK / a valid ACK reaches its (buffered, non-blocking) signal on every path, the window-full wait is level-triggered, NACK suppression is time-bounded, and - the clause that the pinned tree violated - the resend timer is restarted outside the send goroutine only under a fact that our own queue made progress. Each is a necessary condition of 'delivered or fails visibly, never a silent stall'.",
      "Not decided: delivery-time bounds, absence of livelock between syncer, NACK back-off and resend, behaviour for specific fault sequences (needs model checking or simulation, a different family).",
      "DESIGN.md §4 C06")

claim("C01",
      "dominance/template rules over SSA for the receiver acceptance discipline and the window-base moves; exhaustive order-table decision of the cyclic membership predicate; who-may-send/receive on the delivery channels",
      "Exactly-once in-order delivery over all fault sequences and schedules is not statically decidable; decided instead are the code-shape conditions each of which is necessary for it: the receiver delivers and advances only under Seq == recvSeq, exactly once per packet, modulo s, ACK/NACK carry the right numbers; the delivery channels have a single producer and a single consumer; the retransmission queue labels, stores and replays exactly content[i] for i in [base, top); every move of the window base matches one of four (value, guard) templates; containsSequence is decided for ALL values by evaluating its comparison-only decision tree under the 13 weak orderings of its three arguments (exhaustive because the result depends on the ordering only); window fields and peer sequence numbers stay in [0, s).",
      "Not decided: the interplay of loss, duplication and delay with the resend timer, the syncer and the NACK back-off across schedules (the behavioural remainder needs model checking or simulation). Send retains the caller's slice in the queue (noted, outside the stated quantifier).",
      "DESIGN.md §4 C01")

claim("C09",
      "path rule on the send loop (must pass size() < n between admissions), channel-capacity and who-may-use rules, template rules for s = n + 1, interval analysis of the window fields",
      "The window bound is decided structurally for every N and every ACK/NACK pattern: between two admissions to the queue the send loop must pass the size() < n edge; the hand-off channel is unbuffered with exactly one sender (Send) and one receiver (the admitting select), so Send blocks exactly while the loop is not admitting; every definition of a sequence-space field is n + 1 with n <= 254 (strictly larger than the window, never wrapping to 0); base and top stay below s at every store and peer sequence numbers are validated before they enter the window arithmetic; size() is a recognised closed form of (top - base) mod s; base moves follow the four templates and the membership predicate is exact.",
      "Not decided: the instantaneous count of outstanding packets as an invariant over all schedules (follows from WIN-4, WIN-5, INV and SIZE only through an inductive argument the checker does not carry out).",
      "DESIGN.md §4 C09")

claim("C10",
      "value-provenance rules over SSA (phi expansion) for the negotiated window, dominance rule for the client's check, region/path rule for ignoring non-SYN packets, interval analysis for representability",
      "Decided for all handshake packet contents: the server echoes exactly the N field of the SYN it received and later adopts that same value, proved <= 254; the restart shortcut is reachable only after a SYN was echoed; the client sends SYNACK only under respSYN.N == cfg.n and fails otherwise; while waiting for SYN, no successfully parsed non-SYN packet reaches handshake completion without another receive (server: except SYNACK/DATA after a restart); NewClientConn rejects 255. These are the safety clauses of the property ('never a window the client did not propose or that cannot be represented').",
      "Not decided: convergence under loss/duplication/delay and stale packets, and 'once the transport behaves a handshake succeeds' (liveness over schedules).",
      "DESIGN.md §4 C10")

claim("C18",
      "lockset (must-held, interprocedural) + happens-before race analysis over goroutine roots; close-site idiom classification; may-held lock-order graph with cycle detection and blocking-under-lock rule",
      "Schedules are not enumerated: for every field of the connection-state types, every pair of accesses reachable from two goroutine roots (or a multi-instance root) with a write must share a lock (exclusive on the write), be atomic on both sides, or be ordered by publication, before-go along every call path, or after-Wait (with restarts serialised by a common lock) - a sound-by-construction argument for the absence of data races under the stated ownership assumption, which is exactly what 'under any interleaving' requires and what a race-detector run cannot give. Every close(ch) must match a once/owner idiom, several close sites of one channel must exclude each other by an exclusive lock and a terminal close must come after the goroutines that re-create it, and no closable channel is sent on (no close-of-closed / send-on-closed panics). The may-held lock acquisition graph through calls must be acyclic, no lock is re-acquired while held, and nothing that can wait indefinitely runs under a lock that the awaited goroutine needs.",
      "Assumes a struct's mutex guards the fields of the same instance (lock classes are fields, not objects). Message structs handed over through channels/callbacks are excluded (ownership transfer). Orderings outside the three happens-before idioms are reported as findings rather than proved. Scope: package gbn.",
      "DESIGN.md §4 C18")
