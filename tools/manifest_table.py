NOT_YET = {}

claim("C07",
      "interval/range analysis over SSA with dominance guards and proved field invariants; exhaustive site enumeration",
      "Every index, slice, integer division, unchecked type assertion, allocation size and explicit panic in the non-test code of gbn and mailbox is enumerated from the SSA of the current tree and proved safe (dominating length guards, interval analysis, field invariants proved at every store and call site, the window-range invariant base/top/seq < s) or matched against a table of sites relay data cannot reach. This decides the 'never panics on index/divide/assert' and 'window bookkeeping stays in range' clauses for all byte strings at once, which no finite set of inputs can; it is a static necessary-and-sufficient argument for those operation kinds, not for nil dereferences or panics inside dependencies.",
      "Not decided: nil-pointer dereferences, panics inside dependencies (protojson, websocket, btcec, regexp), resource exhaustion. Authenticated plaintext is treated as peer-chosen, not relay-chosen.",
      "DESIGN.md §4 C07")

claim("C19",
      "writer/reader wire-layout extraction from SSA (path enumeration of the serializers, dominance facts of the parser) and field-by-field agreement check",
      "The byte layout emitted by every Serialize (all success paths) and the layout consumed by the matching Deserialize case are extracted from the code of the current tree and compared: tag constants, field offsets, bool encodings vs. decodings, length-prefix position/width/endianness, payload range, length guards, coverage of every Message implementation and every struct field, tag uniqueness. Agreement of the two layouts is a proof-shaped argument for decode(encode(v)) == v over all field values and payloads at once, which sampling cannot give; it is claimed as 'other' because the extractor recognises a fixed set of emission/consumption idioms and trusts bytes.Buffer and encoding/binary.",
      "Not decided: payloads of 4 GiB or more (uint32 length prefix), behaviour of bytes.Buffer/encoding/binary. An unrecognised writer or reader idiom is reported as undecided (fails), never silently accepted.",
      "DESIGN.md §4 C19")
