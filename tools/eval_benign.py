#!/usr/bin/env python3
"""Run all 20 checks against behaviour-preserving patches; every new finding is a
false-alarm candidate (either the checker demands more than the property, or the
patch is not as benign as its author thought - read before deciding).

usage: eval_benign.py [--suites] [--keep] <dir with patch.diff [meta.json]> ...
       eval_benign.py --all            re-run every stored /verif/benign/<name>/patch.diff

--suites  also build and run the two pinned suites once with the patch
--keep    copy quiet (or triaged) patches to /verif/benign/<name>/ (name = last two path parts)
"""
import json, os, shutil, subprocess, sys, tempfile, collections

ENV = dict(os.environ)
ENV["PATH"] = "/root/go/pkg/mod/golang.org/toolchain@v0.0.1-go1.24.9.linux-amd64/bin:" + ENV["PATH"]
ENV.update(GOTOOLCHAIN="local", GOFLAGS="-mod=mod", GOPROXY="off", GOSUMDB="off", GOWORK="off")
VERIF = os.path.dirname(os.path.dirname(os.path.abspath(__file__)))
BENIGN = os.path.join(VERIF, "benign")


def sh(cmd, cwd="/", timeout=900):
    try:
        p = subprocess.run(cmd, cwd=cwd, env=ENV, shell=True, capture_output=True, text=True, timeout=timeout)
        return p.returncode, p.stdout + p.stderr
    except subprocess.TimeoutExpired:
        return 124, "TIMEOUT"


def known_constructs():
    out = collections.defaultdict(list)
    for l in open(os.path.join(VERIF, "KNOWN_FINDINGS.txt")):
        if l.startswith("known:"):
            prop = l.split("property=")[1].split()[0]
            cons = l.split("construct=")[1].split(" :: ")[0].strip()
            out[prop].append(cons)
    return out


def main():
    args = sys.argv[1:]
    suites = "--suites" in args
    keep = "--keep" in args
    dirs = [a for a in args if not a.startswith("--")]
    if "--all" in args:
        dirs = [os.path.join(BENIGN, d) for d in sorted(os.listdir(BENIGN)) if os.path.isfile(os.path.join(BENIGN, d, "patch.diff"))]
    known = known_constructs()
    wt = tempfile.mkdtemp(prefix="bn-", dir="/tmp")
    os.rmdir(wt)
    rc, out = sh(f"git -C /repo worktree add -q {wt} HEAD")
    assert rc == 0, out
    bad = 0
    try:
        for d in dirs:
            d = os.path.abspath(d)
            name = "-".join(d.split("/")[-3:]).replace("OUT-", "").replace("tmp-", "") if "/OUT/" in d else os.path.basename(d)
            patch = os.path.join(d, "patch.diff")
            if not os.path.isfile(patch):
                continue
            rc, out = sh(f"git apply {patch}", wt)
            if rc != 0:
                print(name, "PATCH-DOES-NOT-APPLY", out.strip()[:200])
                sh("git checkout -- . && git clean -fdq", wt)
                continue
            st = ""
            if suites:
                for m, cmd in (("gbn", "go build ./... && go test -vet=off -count=1 ./..."), ("mailbox", "go build . && go test -vet=off -count=1 .")):
                    rc, o = sh(cmd, os.path.join(wt, m))
                    if rc != 0:
                        failed = set(l.split()[2] for l in o.splitlines() if l.startswith("--- FAIL:"))
                        if failed - {"TestInterfaceTickers"} or not failed:
                            st += f" SUITE-{m}-FAIL({','.join(sorted(failed)) or o.strip()[-200:]})"
            rc, out = sh(f"{VERIF}/bin/lncverif -repo {wt} -verif {VERIF} -property all -no-evidence", VERIF)
            sh("git checkout -- . && git clean -fdq", wt)
            finds = collections.OrderedDict()
            for l in out.splitlines():
                if not l.startswith("FINDING "):
                    continue
                prop = l.split("property=")[1].split()[0]
                cons = l.split("construct=")[1].split(" site=")[0]
                if cons in known.get(prop, []):
                    continue
                rule = l.split("rule=")[1].split()[0].split(":")[-1] if "LAYER/" in l else l.split("rule=")[1].split()[0]
                key = rule + " :: " + cons
                finds.setdefault(key, [l, []])[1].append(prop)
            err = "CHECKER-ERROR" in out
            if finds or err:
                bad += 1
                print(f"{name}: ALARM{st}")
                for k, (l, props) in finds.items():
                    print("    ", ",".join(props), "|", l[l.index("rule="):][:420])
                if err:
                    print("    ", out.strip()[-400:])
            else:
                print(f"{name}: quiet{st}")
            if keep:
                dst = os.path.join(BENIGN, name)
                os.makedirs(dst, exist_ok=True)
                shutil.copy(patch, dst)
                if os.path.isfile(os.path.join(d, "meta.json")):
                    shutil.copy(os.path.join(d, "meta.json"), dst)
    finally:
        sh(f"git -C /repo worktree remove --force {wt}")
        shutil.rmtree(wt, ignore_errors=True)
    print(f"{len(dirs)} patches, {bad} with findings")
    sys.exit(1 if bad else 0)


if __name__ == "__main__":
    main()
