#!/usr/bin/env python3
"""Re-run all 20 checks (statically, one load per seed) against every stored seeded
change and regenerate seeded/INDEX.md.

usage: recheck_seeds.py            (needs bin/lncverif built: ./run.sh setup)

For each /verif/seeded/<id>/patch.diff a scratch worktree of /repo (under /tmp,
removed afterwards) gets the patch applied, `lncverif -property all -no-evidence`
is run on it, and the patch is reverted.  meta.json["checks_now"] is rewritten;
the demonstration/suite results stored by eval_seed.py are left untouched.
"""
import json, os, subprocess, sys, tempfile, shutil, collections

VERIF = os.path.dirname(os.path.dirname(os.path.abspath(__file__)))
SEEDED = os.path.join(VERIF, "seeded")

# seeds that at their first evaluation were not reported by the check of their own
# property (the rule named here was added or widened because of them)
FIRST_MISSED = {
    "C13-19": "no check reported it -> KA-1: a wait that watches pong expiry also takes the ping tick",
    "C08-20": "own property silent (reported by C15 RDC-2) -> C08 imports C15",
    "C14-14": "no check reported it -> CHUNK-2 offset-initial looks through a merge in front of the loop (back edges by dominance)",
    "C16-14": "no check reported it -> FLUSH: the record-layer wrappers of NoiseConn delegate to the Machine on every path",
    "C04-14": "no check reported it -> PUBLISH: GetRequestMetadata decodes the auth payload published now",
    "C09-14": "own property silent (reported by C06 KA-6) -> C09 imports C06",
    "C01-15": "own property silent (reported by C10 GBNHS-1) -> C01 imports C10",
    "C09-15": "no check reported it -> LOCKBAL for package gbn (C18, imported)",
    "C06-16": "no check reported it -> LOCKBAL for package gbn (C18, imported)",
    "C09-16": "no check reported it (CHUNK-2 accepts '<' for C14) -> WIN-5 chunk-minimal in C09",
    "C16-15": "own property silent (reported by C15 TRUNC, C08 PAIR) -> RFULL: ReadAtLeast is exact",
    "C12-16": "no check reported it -> ORDER: Server.Close cancels on every path",
    "C11-16": "no check reported it -> LIFE: a failed gbn handshake closes the attempt",
    "C04-15": "no check reported it -> PUBLISH ruleConnDataGuard (fields under ConnData.mu)",
    "C04-16": "no check reported it -> PUBLISH ruleConnDataGuard (no callback under ConnData.mu)",
    "C02-15": "no check reported it -> RDC-2: Read's check/receive/store is one critical section",
    "C03-15": "no check reported it -> HSK-ERR: the new Machine is installed before the handshake runs",
    "C07-15": "no check reported it -> NILWIRE",
    "C10-15": "own property silent (reported by C07 ASSERT) -> GBNHS-1: N is read from the SYN received last",
    "C17-16": "own property silent (side reason) -> CODEC-SIB: the mnemonic encoder is total over the 11-bit groups",
    "C03-17": "own property silent (reported by C07 ASSERT, side reason) -> HSK-SIB: mixKey input is a DH output of this handshake",
    "C03-18": "own property silent (reported by C04/C11/C17) -> C03 shares the remote-key rule",
    "C11-18": "no check reported it -> ORDER: a cancelled context is not handed to a later call",
    "C12-17": "no check reported it -> EXIT: the syncer waits on the channel queue.stop() closes",
    "C15-18": "own property silent (reported by C14 CHUNK-3) -> C15 imports C14",
    "C01-1": "own property silent (reported by C09 only) -> C01 gained WIN-5/SEQSPACE/SIZE",
    "C01-2": "own property silent (reported by C09 only) -> C01 gained WIN-5/SEQSPACE/SIZE",
    "C03-2": "no check reported it -> SECRET-WHOLE (the passphrase entropy is used whole)",
    "C04-1": "no check reported it -> HSK-VER 'KK raises the minimum version to 2'",
    "C05-1": "no check reported it -> LOCKBAL (no re-lock of a possibly held mutex, no return holding one)",
    "C05-2": "own property silent (reported by C15) -> C05 gained the RDC rules",
    "C06-1": "own property silent (reported by C13) -> C06 gained the KA rules",
    "C06-2": "no check reported it -> WIN-4 presence / dead-leg rule",
    "C08-2": "own property silent (reported by C16 FLUSH) -> C08 PAIR 'every Encrypt output is queued on every exit'",
    "C10-2": "no check reported it -> GBNHS-5 (reader re-armed before every wait)",
    "C11-2": "own property silent (reported by C17 with a misleading text) -> C11 FRESH; SIDDIR now accepts a struct copy",
    "C17-1": "own property silent (reported by C11 SIDFRESH) -> C17 shares SIDFRESH",
    "C19-2": "no check reported it -> CODEC reject-set rule",
    "C03-3": "no check reported it -> error discipline: no success return reachable between a call and the test of its error",
    "C04-3": "own property silent (reported by C02/C03) -> C04 HSK-BIND 'failed tag aborts' for every DecryptAndHash of the reader",
    "C05-3": "no check reported it -> RETRY (a failed relay stream is replaced before the retry)",
    "C05-4": "no check reported it -> DUPLEX (read side and write side of the record layer share no state)",
    "C08-4": "own property silent (reported by C05 DUPLEX; same change as C05-4, written independently) -> C08 shares DUPLEX",
    "C09-4": "no check reported it -> WIN-4: the exact-ACK leg needs a non-empty test",
    "C10-3": "no check reported it -> GBNHS-1: every nil return of serverHandshake outside the quit/ctx cases is preceded by setN",
    "C10-4": "no check reported it -> GBNHS-6: the handshake timeout is re-armed on every path from a wait back to itself",
    "C11-3": "no check reported it -> EXCL: close(quit) comes after the gbn connection and both relay streams are released",
    "C11-4": "no check reported it -> SIDFRESH: after the closer, no return and no Refresh before the old connection is forgotten",
    "C15-3": "no check reported it -> RDC-2: the payload is taken out of a message struct created anew for every receive",
    "C15-4": "own property silent (reported by C16 FLUSH) -> C15 RDC-3 shares the WriteMessage nothing-pending guard",
    "C16-4": "own property silent (reported by C15/C05 RDC-3) -> C16 re-checks the accounting of NoiseConn.Write",
    "C17-4": "no check reported it -> SIDFRESH: SetRemote keeps the key only when it reports success (shared by C11 and C17)",
    "C05-5": "own property silent (reported by C18 LOCKORD) -> C05 imports the obligations of the layers below (LAYER/C01,C06,C18,C08,C02,C16)",
    "C05-6": "own property silent (reported by C01 WIN-1, C06 NACKWIRE) -> C05 imports the obligations of the layers below",
    "C10-5": "no check reported it -> GBNHS-7: a handshake timeout makes the client send its SYN again",
    "C10-6": "no check reported it -> GBNHS-3: the restart shortcut is entered only through a type test for SYNACK or DATA",
    "C15-6": "own property silent (reported by C02/C07 for side reasons) -> DUPLEX: Decrypt on the read path returns a fresh buffer; shared by C15",
    "C11-5": "no check reported it -> PUBLISH/SIDFRESH: after split() no return is reachable before SetRemote on the version >= 2 paths",
    "C17-5": "no check reported it -> SIDDIR: SID() returns only a hash computed in this invocation (no remembered value)",
    "C06-5": "own property silent (reported by C18 LOCKORD; third independent rediscovery of this inversion) -> C06 imports C18 and C09",
    "C06-6": "own property silent (reported by C01/C09 SIZE) -> C06 imports C18 and C09",
    "C12-5": "no check reported it -> EXIT/CBCTX: the mailbox transport callbacks poll the context parameter in every loop and pass exactly that context on",
    "C12-6": "no check reported it -> ORDER: every shutdown step of gbn Close lies on every path through the once body",
    "C03-5": "no check reported it -> HSK-SIB: the passphrase is stretched exactly when the pattern is XX",
    "C01-5": "own property silent (reported by C14 CHUNK-3) -> C01 imports the C14 obligations",
    "C01-6": "no check reported it -> WIN-5: every queued packet is the one just received from Send or a newly allocated ping",
    "C02-6": "no check reported it -> RDC-3: the count of every Flush a Write performs is accounted; C02 imports C15/C16",
    "C04-5": "no check reported it -> HSK-VER: act 3 must echo the version chosen in act 2 (comparison with h.version under ActNum == act3)",
    "C07-5": "own property silent (reported by C03 for a side reason) -> C07 ERRUSE: a value returned with an error is not used (or re-read from the field it was stored in) before the error was found nil",
    "C07-6": "own property silent (reported by C01/C09 WIN-4; same change as C09-4) -> C07 shares WIN-4",
    "C08-5": "own property silent (reported by C02/C04 KEYSEP) -> C08 shares KEYSEP",
    "C08-6": "no check reported it -> PAIR: every successful return of ReadHeader/ReadBody/WriteMessage has passed its Decrypt/Encrypt calls; C02 imports C08",
    "C13-6": "no check reported it -> KA-2: the pong timer is Reset only inside the arming sequence of a ping leg",
    "C16-6": "no check reported it -> RFULL (source): the exact-length reads consume the transport itself, never a reader created on the way",
    "C14-5": "no check reported it -> WIN-1: an accepted (acknowledged) data packet is always delivered; C14 imports C01",
    "C18-5": "own property silent (reported by C12 EXIT and TICK-2) -> C18 shares the TICK rules",
    "C20-5": "no check reported it -> TMO-3: the sample of a first transmission is overwritten unconditionally with this call's time.Now()",
    "C10-7": "no check reported it -> GBNHS-1: every way back to the wait for SYN after the echo sets the restart flag",
    "C11-7": "no check reported it -> EXCL: the connection handed out by Accept/Dial is the one stored in mailboxConn",
    "C15-7": "own property silent (reported by C16 RFULL source rule) -> C15 imports C16",
    "C05-7": "no check reported it -> WIN-3: every slot between base and top is retransmitted (no way round the transmission inside the resend loop)",
    "C05-8": "own property silent (reported by C15 TRUNC) -> C05 imports C15 and C19; C19 writer: the length prefix is not computed through a narrower integer",
    "C04-8": "no check reported it -> PUBLISH/SIDFRESH: ConnData.SetRemote/SetAuthData store their argument on every successful return",
    "C12-8": "no check reported it -> ONCE: no return of Close is reachable without passing closeOnce.Do",
    "C03-8": "no check reported it -> HSK-SIB/SIDFRESH: every machine is configured with cfg.ConnData.HandshakePattern() (no other source), and that returns XX exactly while no remote key is stored",
    "C17-7": "own property silent (reported by C04 PUBLISH, C11 SIDFRESH) -> C17 shares the DoHandshake publication guard (negotiated version >= 2)",
    "C07-8": "own property silent (reported by C01/C09 ORD-1) -> C07 shares ORD-1",
    "C13-7": "no check reported it -> KA-2: the ping timer is restarted in the send goroutine only inside the arming sequence of a ping leg",
    "C13-8": "no check reported it -> KA-5: WithKeepalivePing is an argument of the single (list-replacing) WithTimeoutOptions call",
    "C16-7": "own property silent (reported by C15/C08 DUPLEX) -> C16 shares DUPLEX",
    "C20-7": "no check reported it -> TMO-3: the sample of a retransmitted packet is deleted unconditionally under resent, keyed by the packet's Seq",
    "C15-9": "own property silent (reported by C08 NONCE/ROT-SIB) -> C15 imports C08",
    "C15-10": "no check reported it -> PAIR: every successful return of ReadMessage has passed ReadHeader and ReadBody, and the reader is handed to nothing else",
    "C05-10": "own property silent (reported by C12 EXIT) -> C05 and C06 import C12",
    "C11-9": "no check reported it -> RETRY: initAccountCipherBox precedes every attempt to open the stream (no remembered 'already created'); C11 shares RETRY",
    "C11-10": "no check reported it -> EXCL: temporaryError.Temporary is the constant true and Accept wraps the constructors' errors in it",
    "C10-9": "no check reported it -> GBNHS-5: the re-arm send on the token channel is non-blocking (select with default)",
    "C03-9": "no check reported it -> HSK-SIB: the bytes of the pairing secret are never written (no element store, copy or clear into the secret-holding slices)",
    "C03-10": "no check reported it -> HSK-SIB: every successful return of stretchPassphrase is the output of this call's scrypt.Key and the parameter is not retained",
    "C02-10": "no check reported it -> KEYSEP: split expands the transport keys with the chaining key as the HKDF key (and empty input), as Noise prescribes",
    "C04-10": "no check reported it -> HSK-VER: NoiseGrpcConn hands its configured min/max handshake version to every machine it builds; the options store into the field of their name",
    "C07-9": "no check reported it -> NILLATE: outside start and the goroutines it launches, a method call on a field that only start() fills in (the tickers) is under a nil check of it",
    "C07-10": "own property silent (reported by C02 AUTHERR) -> ERRUSE extended to slice results (indexing, slicing beyond 0, encoding/binary decoders) and to errors that are handed to the caller untested",
    "C16-9": "own property silent (reported by C05/C08 TAINT-WIRE) -> FLUSH: Flush only ever advances a pending slice by the count its Write returned",
    "C14-9": "no check reported it -> CHUNK-2: maxChunkSize is stored exactly as configured (the option's argument, not reassigned)",
    "C12-10": "no check reported it -> EXIT: every blocking wait of the two handshakes (and their reader goroutines) has a ctx.Done() or timer case",
    "C20-10": "no check reported it -> TMO-3: a sample is consumed only by the message type that answers the sampled one (SYN time: SYN/SYNACK; DATA send time: ACK)",
    "C17-9": "no check reported it -> CODEC-SIB: the pairing phrase is cut at every separator (strings.Split/Fields over the whole phrase) and copied into the word array",
    "C03-12": "no check reported it -> NONCE/HSK-ORDER ruleKeySchedule: InitializeKey is called from the key schedule only (InitializeKeyWithSalt, rotateKey, mixKey, InitializeSymmetric)",
    "C11-12": "own property silent (reported by C05 LOCKBAL) -> C11 shares LOCKBAL",
    "C02-12": "no check reported it -> KEYSEP ruleEphemeralFresh: no production code configures an ephemeral key generator; the default is btcec.NewPrivateKey, assigned once",
    "C04-11": "no check reported it -> SYM-2/3: EncryptAndHash/DecryptAndHash seal/open into a buffer of their own (nil destination)",
    "C04-12": "own property silent (C07 ASSERT only) -> PUBLISH rulePayloadSource: what writeMsgPattern encrypts is nothing, payloadToSend, or a buffer allocated in this call",
    "C07-11": "own property silent (reported by C18 RACE) -> C07 imports C18",
    "C08-11": "own property silent (reported by C16 FLUSH) -> C08 imports C16",
    "C05-11": "no check reported it -> WIN-1: from the ACK send every way to the next iteration passes the advance of recvSeq (also on the ping leg)",
    "C09-11": "own property silent (reported by C10 GBNHS-1) -> C09 imports C10",
    "C15-12": "no check reported it -> RDC-2: the delegated bytes.Buffer of a Read method is never replaced as a whole and only Write/Read/Len/Cap are called on it",
    "C10-12": "no check reported it -> GBNHS-3: the restart shortcut takes both a SYNACK and a DATA packet",
    "C13-12": "own property silent (reported by C14 CHUNK-4, C01 WIN-1) -> C13 shares 'ping-not-delivered' as KA-3",
    "C14-11": "no check reported it -> CHUNK-1: between a successful hand-off and the next one (or the success return) no error return is reachable",
    "C20-11": "no check reported it -> TMO-6: explored the boolean program over the restart flag: every Sent(SYN) after the first of a handshake sees resent == true",
    "C20-12": "no check reported it -> TMO-1: the static-timeout option's two stores are unconditional",
    "C17-12": "no check reported it -> SIDDIR: every fallible step of ConnData.SID (ECDH, HMAC) has its error tested and returned",
    "C06-3": "no check reported it -> RATELIMIT: once lastResend is refreshed the packets are transmitted",
}


def sh(cmd, cwd="/"):
    p = subprocess.run(cmd, cwd=cwd, shell=True, capture_output=True, text=True)
    return p.returncode, p.stdout + p.stderr


def known_constructs():
    out = collections.defaultdict(list)
    for l in open(os.path.join(VERIF, "KNOWN_FINDINGS.txt")):
        if l.startswith("known:"):
            prop = l.split("property=")[1].split()[0]
            cons = l.split("construct=")[1].split(" :: ")[0].strip()
            out[prop].append(cons)
    return out


def main():
    known = known_constructs()
    wt = tempfile.mkdtemp(prefix="rs-", dir="/tmp")
    os.rmdir(wt)
    rc, out = sh(f"git -C /repo worktree add -q {wt} HEAD")
    assert rc == 0, out
    rows = []
    try:
        for sid in sorted(os.listdir(SEEDED)):
            d = os.path.join(SEEDED, sid)
            patch = os.path.join(d, "patch.diff")
            if not os.path.isfile(patch):
                continue
            meta = json.load(open(os.path.join(d, "meta.json")))
            rc, out = sh(f"git apply {patch}", wt)
            if rc != 0:
                rows.append((sid, meta, None, "patch no longer applies: " + out.strip()[:200]))
                sh("git checkout -- .", wt)
                continue
            rc, out = sh(f"{VERIF}/bin/lncverif -repo {wt} -verif {VERIF} -property all -no-evidence", VERIF)
            sh("git checkout -- .", wt)
            by = collections.OrderedDict()
            for l in out.splitlines():
                if not l.startswith("FINDING "):
                    continue
                prop = l.split("property=")[1].split()[0]
                cons = l.split("construct=")[1].split(" site=")[0]
                if cons in known.get(prop, []):
                    continue
                rule = l.split("rule=")[1].split()[0]
                by.setdefault(prop, [])
                ent = rule + " :: " + cons
                if ent not in by[prop]:
                    by[prop].append(ent)
            err = None
            if "CHECKER-ERROR" in out:
                err = out.strip()[-300:]
                by.setdefault("load", []).append("the changed tree does not load: every check fails closed")
            meta["checks_now"] = by
            meta["caught_by_own_property_now"] = meta.get("property") in by
            json.dump(meta, open(os.path.join(d, "meta.json"), "w"), indent=1)
            rows.append((sid, meta, by, err))
    finally:
        sh(f"git -C /repo worktree remove --force {wt}")
        shutil.rmtree(wt, ignore_errors=True)
    # INDEX.md
    lines = ["# Seeded changes", "",
             "Each directory holds one change to lightninglabs/lightning-node-connect written by a fresh sub-agent that saw only the",
             "text of one property and its own scratch worktree (nothing from /verif). Every change compiles, passes the two pinned",
             "suites (run twice) and comes with a demonstration (`demo_test.go`, copied to `<demo_dir>/zz_seed_demo_test.go`) that",
             "fails with the change and passes without it; `tools/eval_seed.py` re-confirmed all of that in a fresh worktree before",
             "the change was kept (`meta.json: evaluation`). None of them is ever committed to /repo.",
             "",
             "`tools/recheck_seeds.py` applies every patch to a scratch worktree and runs all 20 checks on it (static, ~1.5 s per",
             "seed); the table below is its output for the current checker (`meta.json: checks_now`).",
             "",
             "| seed | breaks | what it needs to manifest | reported by (current checker) | own property | history |",
             "|---|---|---|---|---|---|"]
    n_own = n_any = n = 0
    for sid, meta, by, err in rows:
        n += 1
        need = (meta.get("needs_to_manifest") or "").replace("|", "/").replace("\n", " ")
        if len(need) > 260:
            need = need[:257] + "..."
        if by is None:
            lines.append(f"| {sid} | {meta.get('property')} | {need} | {err} | - | |")
            continue
        rep = "; ".join(f"{p}: " + ", ".join(sorted({e.split(' :: ')[0] for e in es})) for p, es in by.items()) or "**none**"
        own = "yes" if meta.get("property") in by else "**no**"
        n_any += 1 if by else 0
        n_own += 1 if meta.get("property") in by else 0
        lines.append(f"| {sid} | {meta.get('property')} | {need} | {rep} | {own} | {FIRST_MISSED.get(sid, '')} |")
    lines += ["", f"{n} seeded changes; {n_any} reported by at least one check, {n_own} by the check of the property they were written against.", ""]
    open(os.path.join(SEEDED, "INDEX.md"), "w").write("\n".join(lines))
    print("\n".join(lines[-3:]))
    for sid, meta, by, err in rows:
        if by is not None and meta.get("property") not in by:
            print("NOT-OWN", sid, list(by))


if __name__ == "__main__":
    main()
