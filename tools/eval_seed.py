#!/usr/bin/env python3
"""Confirm a seeded change and run all checks against it in a scratch worktree.

usage: eval_seed.py <seed-dir with patch.diff, demo_test.go, meta.json> [--keep NAME]

Steps (all in a fresh worktree of /repo under /tmp, removed afterwards):
  1. demo on the unchanged tree must pass
  2. patch applies and builds; the two existing suites pass with it
  3. demo with the patch must fail
  4. every registered check is run with REPO=<worktree>; violations are collected
Prints a JSON summary; with --keep copies the seed into /verif/seeded/NAME/.
"""
import json, os, shutil, subprocess, sys, tempfile, time

ENV = dict(os.environ)
ENV["PATH"] = "/root/go/pkg/mod/golang.org/toolchain@v0.0.1-go1.24.9.linux-amd64/bin:" + ENV["PATH"]
ENV.update(GOTOOLCHAIN="local", GOFLAGS="-mod=mod", GOPROXY="off", GOSUMDB="off", GOWORK="off")
VERIF = os.path.dirname(os.path.dirname(os.path.abspath(__file__)))


def run(cmd, cwd, timeout=900):
    try:
        p = subprocess.run(cmd, cwd=cwd, env=ENV, shell=True, capture_output=True, text=True, timeout=timeout)
        return p.returncode, (p.stdout + p.stderr)
    except subprocess.TimeoutExpired as e:
        return 124, "TIMEOUT " + str(e)


def main():
    seed = os.path.abspath(sys.argv[1])
    keep = None
    if "--keep" in sys.argv:
        keep = sys.argv[sys.argv.index("--keep") + 1]
    meta = json.load(open(os.path.join(seed, "meta.json")))
    demo_dir = meta.get("demo_dir", "gbn")
    demo_cmd = meta.get("demo_cmd", "go test -vet=off -count=1 -run TestSeedDemo .")
    if "go test" in demo_cmd:
        demo_cmd = demo_cmd[demo_cmd.index("go test"):]
    if "-timeout" not in demo_cmd:
        demo_cmd = demo_cmd.replace("go test", "go test -timeout 300s", 1)
    wt = tempfile.mkdtemp(prefix="ev-", dir="/tmp")
    os.rmdir(wt)
    res = {"seed": seed, "property": meta.get("property")}
    try:
        rc, out = run(f"git -C /repo worktree add -q {wt} HEAD", "/")
        assert rc == 0, out
        demo_src = os.path.join(seed, "demo_test.go")
        demo_dst = os.path.join(wt, demo_dir, "zz_seed_demo_test.go")
        shutil.copy(demo_src, demo_dst)
        rc, out = run(demo_cmd, os.path.join(wt, demo_dir), 600)
        res["demo_without_change"] = "pass" if rc == 0 else "FAIL"
        res["demo_without_tail"] = out[-600:]
        os.remove(demo_dst)
        rc, out = run(f"git apply {os.path.join(seed, 'patch.diff')}", wt)
        res["patch_applies"] = rc == 0
        if rc != 0:
            res["apply_err"] = out[-400:]
            print(json.dumps(res, indent=1))
            return
        suites = {}
        for m, cmd in (("gbn", "go test -vet=off -count=1 ./..."), ("mailbox", "go test -vet=off -count=1 .")):
            # two passing runs are required; a failure that consists only of the timing test
            # TestInterfaceTickers (10 ms tolerances; it flakes on the unchanged tree as well when the
            # machine is busy) is retried, anything else fails the suite at once
            passes, runs, tail, ok = 0, 0, "", True
            while passes < 2 and runs < 5:
                runs += 1
                rc, out = run(cmd, os.path.join(wt, m), 900)
                if rc == 0:
                    passes += 1
                    continue
                tail = out[-800:]
                failed = set(l.split()[2] for l in out.splitlines() if l.startswith("--- FAIL:"))
                if failed - {"TestInterfaceTickers"}:
                    ok = False
                    break
            ok = ok and passes >= 2
            suites[m] = "pass" if ok else "FAIL"
            if tail:
                suites[m + "_tail"] = tail
                suites[m + "_runs"] = runs
        res["suites_with_change"] = suites
        shutil.copy(demo_src, demo_dst)
        rc, out = run(demo_cmd, os.path.join(wt, demo_dir), 600)
        res["demo_with_change"] = "fail" if rc != 0 else "PASSES"
        res["demo_with_tail"] = out[-600:]
        os.remove(demo_dst)
        # checks
        caught = {}
        for i in range(1, 21):
            pid = f"C{i:02d}"
            rc, out = run(f"{VERIF}/bin/lncverif -repo {wt} -verif {VERIF} -property {pid} -no-evidence", VERIF, 300)
            finds = [l for l in out.splitlines() if l.startswith("FINDING ")]
            # subtract the known findings of the unchanged tree
            known = [l.split("construct=")[1].split(" :: ")[0].strip() for l in open(os.path.join(VERIF, "KNOWN_FINDINGS.txt")) if l.startswith("known:") and f"property={pid} " in l]
            new = [f for f in finds if not any(("construct=" + k + " site=") in f for k in known)]
            if new or "CHECKER-ERROR" in out:
                caught[pid] = [f[:300] for f in new[:3]] or [out[-300:]]
        res["checks_reporting"] = caught
        res["caught_by_own_property"] = meta.get("property") in caught
        res["confirmed"] = (res["demo_without_change"] == "pass" and res["demo_with_change"] == "fail"
                            and all(v == "pass" for k, v in suites.items() if not (k.endswith("_tail") or k.endswith("_runs"))))
    finally:
        run(f"git -C /repo worktree remove --force {wt}", "/")
        shutil.rmtree(wt, ignore_errors=True)
    if keep and res.get("confirmed"):
        dst = os.path.join(VERIF, "seeded", keep)
        os.makedirs(dst, exist_ok=True)
        shutil.copy(os.path.join(seed, "patch.diff"), dst)
        shutil.copy(demo_src, os.path.join(dst, "demo_test.go"))
        meta["evaluation"] = {k: res[k] for k in ("demo_without_change", "demo_with_change", "suites_with_change", "checks_reporting", "caught_by_own_property")}
        meta["ran"] = ["demo on unchanged tree", "git apply patch", "gbn and mailbox suites twice", "demo with change", "all 20 checks with REPO=<scratch worktree>"]
        json.dump(meta, open(os.path.join(dst, "meta.json"), "w"), indent=1)
    print(json.dumps(res, indent=1))


if __name__ == "__main__":
    main()
