#!/usr/bin/env python3
"""Prepare scratch worktrees + prompts for a further wave of seeded-change sub-agents.

usage: mk_seed_prompts.py <wave> C01 C02 ...

For each property creates /tmp/seed<wave>-<id> (a worktree of /repo at HEAD) holding
PROPERTY.json (the property text only) and PROMPT.txt.  The prompt lists, as "already
taken", one-line summaries of the changes earlier agents wrote for that property (their
own words, nothing about the checker), so the new agent has to find a different site.
Nothing from /verif's machinery is given to the agent.
"""
import json, os, subprocess, sys

VERIF = os.path.dirname(os.path.dirname(os.path.abspath(__file__)))
ENVLINE = ("export PATH=/root/go/pkg/mod/golang.org/toolchain@v0.0.1-go1.24.9.linux-amd64/bin:$PATH "
           "GOTOOLCHAIN=local GOFLAGS=-mod=mod GOPROXY=off GOSUMDB=off GOWORK=off")

TEMPLATE = """You are working in a scratch git worktree at {wt} of the Go repository lightninglabs/lightning-node-connect ("Lightning Node Connect": a Noise/SPAKE2 encrypted gRPC transport tunnelled over a mailbox relay, with its own Go-Back-N reliable-delivery protocol). The two Go modules that matter are gbn/ (Go-Back-N) and mailbox/ (Noise handshake, record layer, mailbox connections). Work ONLY inside {wt} . Never read or touch /repo or /verif (you have no business there; do not look at them). NEVER use `git stash` (the stash is shared between all worktrees of this repository and other engineers work in sibling worktrees); keep your edits as patch files instead.

Every shell command must start with this environment line (the sandbox is offline):
{env}

The existing test suites are:  (cd gbn && go test -vet=off -count=1 ./...)  (about 20 s, several tests are timing based)  and  (cd mailbox && go test -vet=off -count=1 .)  (about 5 s).

Here is a semantic property of the code base that is supposed to hold (full text in {wt}/PROPERTY.json - read it first, including its quantifier and anchors):

[{id}] {title}
Statement: {statement}
Quantifier: {quant}
Why tests cannot settle it: {why}
Anchors (files): {files}
Mechanisms: {mech}

YOUR TASK: write TWO different, independent changes to the NON-TEST source code (files under gbn/ or mailbox/, not *_test.go) each of which BREAKS this property, while
 (a) the code still compiles,
 (b) the existing test suites above still pass with the change (run them twice, some are timing based),
 (c) the breakage needs something SPECIFIC to manifest: a particular interleaving, a crash or fault at a particular point, a multi-step sequence of operations, an unusual input, or two cooperating sites that each look fine alone. Do NOT produce changes that ordinary use would expose at once.
Make each change small and realistic - the kind of edit a developer might make while refactoring, optimising or "simplifying" (a weakened check, a reordered statement, a dropped guard, an off-by-one, a missing unlock/lock, a condition that is almost equivalent, a field updated in one place but not its sibling, a helper extracted with a subtly different contract, a value computed once and cached although it can change, an early return added before a necessary side effect ...). The two changes must be at different sites / of different kinds.

Other engineers have ALREADY delivered the following changes for this property. Do not repeat them or trivial variants of them; pick different functions, different clauses of the property, or a different mechanism. Prefer the parts of the property and the anchors that this list does not touch yet:
{taken}

For EACH change k in {{1,2}} provide a demonstration: a new Go test file (package-internal test in gbn/ or mailbox/, name it zz_seed_demo_test.go) or a small program that FAILS (test failure, panic, race report with -race, hang detected by a timeout) WITH the change and PASSES on the unchanged tree. You must verify both directions yourself.

Deliverables (create these files):
 {wt}/OUT/k/patch.diff     - `git diff` of the source change only (must apply with `git apply` to a clean checkout; do NOT include the demo or OUT in it)
 {wt}/OUT/k/demo_test.go   - the demonstration, plus in meta.json the directory it must be copied to and the exact command to run it
 {wt}/OUT/k/meta.json      - {{"property": "{id}", "summary": "...what the change does and why it breaks the property...", "needs_to_manifest": "...", "files_changed": [...], "demo_dir": "gbn" or "mailbox", "demo_cmd": "go test -vet=off -count=1 -run TestSeedDemo . (add -race if needed)", "verified": {{"suite_passes_with_change": true/false, "demo_fails_with_change": true/false, "demo_passes_without_change": true/false}}, "notes": "..."}}

Procedure for each change: start from a clean tree (`git checkout -- . && git clean -fdq -e OUT -e PROPERTY.json -e PROMPT.txt`), make the edit, build, run both suites twice, write the demo, run it (fails), save `git diff -- gbn mailbox ':!*zz_seed_demo_test.go'` as patch.diff, then revert the source change, run the demo again (passes). Leave the worktree clean (reverted) at the end, keeping only OUT/. If after serious effort you can only produce one valid change, deliver one and say so. Report briefly at the end what you delivered.
"""


def main():
    wave = sys.argv[1]
    props = {}
    for l in open(os.path.join(VERIF, "properties.jsonl")):
        p = json.loads(l)
        props[p["id"]] = p
    for pid in sys.argv[2:]:
        p = props[pid]
        wt = f"/tmp/seed{wave}-{pid}"
        subprocess.run(f"git -C /repo worktree remove --force {wt}", shell=True, capture_output=True)
        r = subprocess.run(f"git -C /repo worktree add -q {wt} HEAD", shell=True, capture_output=True, text=True)
        assert r.returncode == 0, r.stderr
        json.dump(p, open(os.path.join(wt, "PROPERTY.json"), "w"), indent=1)
        taken = []
        sd = os.path.join(VERIF, "seeded")
        for d in sorted(os.listdir(sd)):
            mp = os.path.join(sd, d, "meta.json")
            if not d.startswith(pid + "-") or not os.path.isfile(mp):
                continue
            m = json.load(open(mp))
            s = " ".join((m.get("summary") or "").split())
            if len(s) > 420:
                s = s[:417] + "..."
            taken.append(f" - [{', '.join(m.get('files_changed', []))}] {s}")
        a = p["anchors"]
        txt = TEMPLATE.format(
            wt=wt, env=ENVLINE, id=pid, title=p["title"], statement=p["statement"],
            quant=p["quantifier"]["text"], why=p["why_tests_cant"],
            files=", ".join(a.get("files", [])),
            mech="; ".join(f"{m['name']} @ {m['where']}" for m in a.get("mechanism", [])),
            taken="\n".join(taken) or " - (none yet)")
        open(os.path.join(wt, "PROMPT.txt"), "w").write(txt)
        print(wt, len(taken), "taken")


if __name__ == "__main__":
    main()
