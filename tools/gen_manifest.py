#!/usr/bin/env python3
"""Generates /verif/MANIFEST.json from the table below (kept valid at all times)."""
import json, os, sys

BASE = os.path.dirname(os.path.dirname(os.path.abspath(__file__)))

BASELINE_OFF = ("export PATH=/root/go/pkg/mod/golang.org/toolchain@v0.0.1-go1.24.9.linux-amd64/bin:$PATH GOTOOLCHAIN=local "
                "GOFLAGS=-mod=mod GOPROXY=off GOSUMDB=off GOWORK=off; "
                "for m in gbn mailbox; do (cd /repo/$m && go test -json -vet=off -count=1 -timeout 25m ./...); done")

TRUST = ("Trusted base: go/types + go/ssa (x/tools v0.29.0) as a model of the compiled program, the rule idiom tables in "
         "DESIGN.md, and the documented contracts of dependencies. ")

# id -> (claimed?, technique, level text, level note, design ref)
CHECKS = {}

def claim(pid, technique, text, note, ref):
    CHECKS[pid] = dict(technique=technique, text=text, note=note, ref=ref)

exec(open(os.path.join(BASE, "tools", "manifest_table.py")).read())

props = [json.loads(l) for l in open(os.path.join(BASE, "properties.jsonl"))]
checks, na = [], []
for p in props:
    pid = p["id"]
    if pid in CHECKS:
        c = CHECKS[pid]
        checks.append({
            "property_id": pid,
            "quick_cmd": f"./run.sh {pid} quick",
            "thorough_cmd": f"./run.sh {pid} thorough",
            "evidence_file": f"evidence/{pid}.json",
            "replay_cmd_template": "./run.sh explain {path}",
            "engine": "lncverif",
            "level_claimed": {"category": "other", "text": c["text"], "design_ref": c["ref"]},
            "level_note": TRUST + c["note"],
            "technique": c["technique"],
        })
    else:
        na.append({"property_id": pid, "reason": NOT_YET.get(pid, "no sound static rule built yet for this property in this tree (see DESIGN.md); not claimed")})

manifest = {
    "version": 1,
    "setup_cmd": "./run.sh setup",
    "hooks": {
        "guard": "verif",
        "enable": "none needed: the checks are static analyses that read /repo's unmodified sources (no instrumentation, no hook commits)",
        "baseline_off_cmd": BASELINE_OFF,
        "source_commits": [],
        "add_only": True,
    },
    "engines": [{
        "name": "lncverif",
        "path": "checker/",
        "serves_properties": sorted(CHECKS),
        "kind_free_text": "repository-specific static analyser over go/types + go/ssa (dominance, interval/range analysis, field invariants, call graph, lockset, path queries); nothing under /repo is executed",
    }],
    "checks": checks,
    "not_applicable": na,
    "notes": "All claimed checks are static analyses at level 'other'; each decides structural necessary conditions of its property (named in level_claimed.text) and states what it does not decide. Findings on the pinned tree were repaired by 'fix:' commits in /repo or are listed in KNOWN_FINDINGS.txt. The thorough tier adds the sensitivity suite (frozen in-memory mutants, advisory).",
}
json.dump(manifest, open(os.path.join(BASE, "MANIFEST.json"), "w"), indent=1)
print("claimed:", sorted(CHECKS), "not claimed:", [x["property_id"] for x in na])
