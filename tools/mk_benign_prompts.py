#!/usr/bin/env python3
"""Prepare scratch worktrees + prompts for a wave of *behaviour-preserving* changes.

usage: mk_benign_prompts.py <wave> <slot>=<file,file,...> ...

Each agent gets a scratch worktree /tmp/benign<wave>-<slot>, a list of source files it is
responsible for, and is asked for several independent refactorings of the kind a maintainer
makes (helper extraction, inlining, control-flow reshaping, renaming, early returns, added
logging/metrics, comments, reordered independent statements ...) that leave the observable
behaviour exactly as it is.  Nothing from /verif is given to the agent.  Every finding one of
the 20 checks reports on such a patch is a false alarm candidate (tools/eval_benign.py).
"""
import os, subprocess, sys

ENVLINE = ("export PATH=/root/go/pkg/mod/golang.org/toolchain@v0.0.1-go1.24.9.linux-amd64/bin:$PATH "
           "GOTOOLCHAIN=local GOFLAGS=-mod=mod GOPROXY=off GOSUMDB=off GOWORK=off")

TEMPLATE = """You are working in a scratch git worktree at {wt} of the Go repository lightninglabs/lightning-node-connect ("Lightning Node Connect": a Noise/SPAKE2 encrypted gRPC transport tunnelled over a mailbox relay, with its own Go-Back-N reliable-delivery protocol). The two Go modules that matter are gbn/ (Go-Back-N) and mailbox/ (Noise handshake, record layer, mailbox connections). Work ONLY inside {wt} . Never read or touch /repo or /verif (do not look at them). NEVER use `git stash` (the stash is shared between all worktrees of this repository and other engineers work in sibling worktrees); keep your edits as patch files instead.

Every shell command must start with this environment line (the sandbox is offline):
{env}

The existing test suites are:  (cd gbn && go test -vet=off -count=1 ./...)  (about 20 s, several tests are timing based; TestInterfaceTickers may flake when the machine is busy)  and  (cd mailbox && go test -vet=off -count=1 .)  (about 5 s).

YOUR TASK: you are a maintainer doing clean-up work on these NON-TEST source files:
   {files}
Write SIX different, independent, STRICTLY BEHAVIOUR-PRESERVING changes to them, the kind of edits that show up in ordinary maintenance pull requests. The program must behave exactly as before for every input, every schedule and every error path: same bytes on the wire, same return values and errors (same error identity where callers could compare), same ordering of side effects that another goroutine or the peer can observe, same locking, same blocking behaviour, same timer behaviour. Read the code carefully before each edit and convince yourself that it is an exact equivalence, not "almost" one: an edit that changes behaviour in a corner case is a FAILURE of this task.

{focus}Use a VARIETY of kinds, each patch a different kind and (as far as the files allow) a different function. Ideas:
 - extract a block into a helper function or method (or inline a small helper into its only caller)
 - restructure control flow: if/else <-> early return, switch <-> if chain, invert a condition and swap the branches, merge/split nested ifs, `for {{ select ... }}` reshaped with labelled continue/break, loop with index <-> range
 - introduce a local variable for a repeated expression that nothing can change in between, or remove one
 - rename locals, parameters, unexported fields, unexported functions, receivers (consistently everywhere)
 - replace a literal by a named constant (or vice versa), change the spelling of a constant expression (`4` -> `1+3`, `0xff`)
 - move declarations around in a file, reorder struct fields, reorder independent statements (ONLY when truly independent), group var blocks
 - add debug/trace logging, comments, doc comments; wrap an error message differently ONLY where no caller inspects the text (prefer not touching errors)
 - change how a value is computed to an arithmetically identical form on the actual types (mind uint8/uint16 wrap-around!)
 - defer <-> explicit unlock on every path (only when exactly equivalent), `x := T{{}}; x.f = v` <-> composite literal
 - convert a closure to a method or a method value to a closure, pass a value through a parameter instead of a field read when it cannot change
 - add a new unexported, unused-by-default option/field/method that does not influence existing paths (a feature hook), or add statistics counters updated under the lock that is already held
Make them realistic in size: some tiny (3-10 lines), some medium (a helper extraction touching 30-60 lines). Each patch must stand on its own against the clean tree (they are NOT cumulative).

For each change k in 1..6:
 1. start from a clean tree (`git checkout -- . && git clean -fdq -e OUT -e PROMPT.txt`)
 2. make the edit; `go build ./...` and `go vet ./...` in the module must succeed
 3. run the suite of the module you touched twice (both modules if you touched gbn/, since mailbox uses it) - all must pass
 4. save `git diff -- gbn mailbox` as {wt}/OUT/k/patch.diff (must apply with `git apply` to a clean checkout)
 5. write {wt}/OUT/k/meta.json: {{"kind": "...", "files_changed": [...], "functions_touched": [...], "summary": "what was changed", "equivalence_argument": "why behaviour is exactly preserved, including error paths, concurrency and integer widths"}}
Leave the worktree clean (reverted) at the end, keeping only OUT/. Report briefly at the end what you delivered.
"""


def main():
    wave = sys.argv[1]
    for arg in sys.argv[2:]:
        slot, files = arg.split("=")
        wt = f"/tmp/benign{wave}-{slot}"
        subprocess.run(f"git -C /repo worktree remove --force {wt}", shell=True, capture_output=True)
        r = subprocess.run(f"git -C /repo worktree add -q {wt} HEAD", shell=True, capture_output=True, text=True)
        assert r.returncode == 0, r.stderr
        focus = ""
        if os.environ.get("BENIGN_FOCUS") == "structural":
            focus = ("THIS ROUND concentrates on STRUCTURAL refactorings (earlier rounds already covered local renames, literals->constants and simple control-flow flips; do not spend patches on those): "
                     "(1) rename an unexported function or method consistently (all callers, comments); (2) INLINE an existing small unexported helper into its caller(s) and delete it; "
                     "(3) extract a multi-statement block with early returns into a new method that returns (value, error) or a bool; (4) split a long function into two sequential helpers; "
                     "(5) add a parameter to an unexported function and pass the value the function used to read from a field or compute itself (same value, provably unchanged in between); "
                     "(6) move a function or type to another file of the same package; (7) change an unexported method with value semantics into a plain function taking the receiver as first argument (or the reverse); "
                     "(8) replace a closure that captures variables by a small struct with a method, or a goroutine body closure by a named method started with `go`; "
                     "(9) merge two sibling functions that differ in one constant into one parameterised helper plus two thin wrappers; (10) replace manual lock/unlock pairs by a helper `withLock(func())` ONLY where exactly equivalent. "
                     "At least four of your six patches must be of these structural kinds. ")
        txt = TEMPLATE.format(wt=wt, env=ENVLINE, files=", ".join(files.split(",")), focus=focus)
        open(os.path.join(wt, "PROMPT.txt"), "w").write(txt)
        print(wt)


if __name__ == "__main__":
    main()
